import numpy as np, itertools, sys
sys.path.insert(0,'/verif')
from mc import env
from mc.tape import OwnedRandom
from tempest.mcmc import parallel_mcmc
from tempest.modes import ModeStatistics

def chain(M, logL, beta, bnd, kern="rwm"):
    d=1
    h=1.0/M
    sigma0=2.38/np.sqrt(d)
    ms=ModeStatistics(np.array([[0.5]]), np.array([[[ (h/sigma0)**2 ]]]), np.array([5.0]))
    per = [0] if bnd=="p" else None
    ref = [0] if bnd=="r" else None
    zs=[-2,-1,0,1,2]; pz=[1/16,4/16,6/16,4/16,1/16]
    P=np.zeros((M,M))
    for i in range(M):
        u=np.array([[(i+0.5)/M]])
        ok=[]; R=0.0
        for z,p in zip(zs,pz):
            calls=[0]; props=[]
            def h_randn(t,*a,**k):
                calls[0]+=1
                return np.array([float(z)]) if calls[0]==1 else np.array([0.0])
            def pt(uu): props.append(np.array(uu,copy=True)); return np.array(uu,copy=True)
            def ll(x): return np.array([logL[min(M-1,max(0,int(np.floor(xx[0]*M+1e-9))))] for xx in x]), None
            with OwnedRandom(1, handlers={"randn":h_randn, "rand": lambda t,*a,**k: np.zeros(a) if a else 0.0}):
                out=parallel_mcmc(u=u.copy(),x=u.copy(),logl=np.array([logL[i]]),blobs=None,assignments=np.array([0]),beta=beta,mode_stats=ms,
                    log_likelihood=ll,prior_transform=pt,n_steps=1,n_max=0,sample=kern,periodic=per,reflective=ref,verbose=False)
            alpha=out[5]
            if calls[0]>1: R+=p; continue
            j=int(np.floor(props[-1][0]*M+1e-9)); 
            ok.append((p,alpha,j))
        for p,a,j in ok:
            P[i,j]+= p/(1-R)*a
        P[i,i]+= 1-P[i].sum()
    return P
M=4
for bnd in "hpr":
    P=chain(M,[0.0]*M,1.0,bnd)
    print(bnd); print(np.round(P,4))
    pi=np.ones(M)/M
    F=pi[:,None]*P
    print("DB resid", np.abs(F-F.T).max())
