#!/venv/bin/python
"""Self-tests of the verification machinery itself (reference models, enumerators, file-system model).
Run by tools/selftest.py (MANIFEST.setup_cmd).  They do not exercise the library under test."""
import itertools
import math
import os
import sys
from fractions import Fraction as F

sys.path.insert(0, os.path.dirname(os.path.dirname(os.path.abspath(__file__))))
import numpy as np

from mc.refmodels import mis, resample as rref, fs as fsm, statemodel
from mc import lattice


def test_mis_float_vs_decimal():
    k = 0
    for T in (1, 2, 3):
        for sizes in itertools.product((1, 2, 3), repeat=T):
            betas = [((i * 7 + T) % 5) / 4.0 for i in range(T)]
            logzs = [(-1.0) ** i * (i + 0.5) for i in range(T)]
            batches = [np.array([math.sin(3.1 * (k + j + 7 * t)) * 20 for j in range(n)]) for t, n in enumerate(sizes)]
            for beta in (0.0, 0.3, 1.0):
                lwf, lzf = mis.logw_float(batches, betas, logzs, beta)
                lwd, lzd = mis.logw_decimal(batches, betas, logzs, beta)
                assert max(abs(float(a) - float(b)) for a, b in zip(lwf, lwd)) < 1e-10
                assert abs(lzf - float(lzd)) < 1e-10
                wf = mis.weights_float(lwf)
                wd = [float(v) for v in mis.normalised_decimal(lwd)]
                assert max(abs(a - b) for a, b in zip(wf, wd)) < 1e-12
                assert abs(mis.ess_float(lwf) - float(mis.ess_decimal(lwd))) < 1e-9
                k += 1
    return k


def _brute_indices(n, w, u0):
    C = [sum(F(float(x)) for x in w[: j + 1]) for j in range(len(w))]
    out = []
    for i in range(n):
        pos = (F(u0) + i) / n
        j = next((j for j in range(len(w)) if (C[j - 1] if j else F(0)) <= pos < C[j]), -1)
        out.append(j)
    return out


def test_resample_reference():
    n_checked = 0
    for n in (1, 2, 3, 5):
        for comp in lattice.compositions(6, 3):
            if sum(comp) == 0:
                continue
            w = np.array(comp, dtype=float) / 6.0
            C = rref.cums(w)
            last = max(i for i in range(3) if w[i] > 0)
            bps = rref.breakpoints(n, C)
            edges = [F(0)] + bps + [F(1)]
            for a, b in zip(edges[:-1], edges[1:]):
                # constant inside a cell, equal to the brute-force definition
                pts = [a + (b - a) * F(k, 5) for k in (1, 2, 3, 4)]
                res = [rref.exact_indices(n, C, p, last) for p in pts]
                assert all(r == res[0] for r in res), (n, comp, a, b)
                assert res[0] == _brute_indices(n, w, pts[1]), (n, comp)
                cnt = np.bincount([i for i in res[0] if i >= 0], minlength=3)
                for i in range(3):
                    t = n * F(float(w[i]))
                    assert math.floor(t) <= cnt[i] <= math.ceil(t)
                n_checked += 1
    return n_checked


def test_covering_array():
    factors = [("a", [1, 2, 3]), ("b", ["x", "y"]), ("c", [None, 0.5, 2.0, 7]), ("d", [True, False])]
    for strength in (2, 3):
        rows = lattice.covering_array(factors, strength=strength, seed=3)
        cov, tot = lattice.count_covered(rows, factors, strength)
        assert cov == tot, (strength, cov, tot)
    return len(rows)


def test_memfs_crash_images():
    fs = fsm.MemFS()
    fs.mkdir("/memfs/t", parents=True, exist_ok=True)
    f = fs.open("/memfs/t/a.tmp", "wb")
    f.write(b"x" * 10000)  # larger than the buffer: at least one raw write before close
    f.flush()
    f.write(b"yz")
    f.close()
    fs.rename("/memfs/t/a.tmp", "/memfs/t/a")
    ops = fs.log[1:]
    assert [o[0] for o in ops][0] == "create" and ops[-1][0] == "rename"
    full = fs.image({}, ops, len(ops))
    assert full == {"/memfs/t/a": b"x" * 10000 + b"yz"}
    # before the rename the final name never exists; a torn write only ever affects the temp name
    for k in range(len(ops)):
        for t in (None, 0, 1, 5):
            img = fs.image({}, ops, k, torn=t)
            assert "/memfs/t/a" not in img
    k_w = next(i for i, o in enumerate(ops) if o[0] == "write")
    assert fs.image({}, ops, k_w, torn=7)["/memfs/t/a.tmp"] == b"x" * 7
    return len(ops)


def test_statemodel_same():
    a = {"u": np.array([1.0, 2.0]), "l": [np.array([1]), 2.0], "n": None}
    b = {"u": np.array([1.0, 2.0]), "l": [np.array([1]), 2.0], "n": None}
    assert statemodel.same(a, b)
    b["l"][0] = np.array([1.0])  # dtype differs
    assert not statemodel.same(a, b)
    return 2


def test_forms_same_and_forms():
    from mc import forms as fm
    assert not fm.same(np.inf, 1.0, rtol=1e-3)          # an infinite value is never "within tolerance" of a finite one
    assert fm.same([1.0, np.nan], [1.0 + 1e-13, np.nan], rtol=1e-12)
    a = np.array([[0.25, 3.0], [1024.0, 0.0]])
    k = 0
    for name, v in fm.forms(a, fm.ALL):
        assert np.array_equal(np.asarray(v, dtype=float), a), name
        k += 1
    assert fm.form(np.array([0.1]), "f32") is None and fm.form(np.array([0.5, 2.0]), "i64") is None
    return k


def test_tape_owns_the_global_generator():
    from mc.tape import OwnedRandom
    g = np.random.mtrand._rand
    np.random.seed(123)
    before = np.random.get_state()[1].copy()
    with OwnedRandom(7) as t:
        a = np.random.random()                 # through the patched name
        b = g.random_sample()                  # through the generator OBJECT: still the owned stream
        with OwnedRandom(3):                   # a nested tape leaves the outer position alone
            np.random.random(5)
        c = np.random.random()
    ref = np.random.RandomState(7)
    assert (a, b, c) == (ref.random_sample(), ref.random_sample(), ref.random_sample())
    assert np.array_equal(np.random.get_state()[1], before)   # the real stream is where it was
    with t:                                    # re-entry continues the tape
        assert np.random.random() == ref.random_sample()
    return 4


def test_one_preemption_explorer():
    """A function that keeps a module-level scratch buffer between its lines is exposed; a pure one is not (on code outside the library the
    tracer is pointed at this file)."""
    from mc import threads
    import mc.env as _env
    old = _env.REPO
    _env.REPO = os.path.dirname(os.path.abspath(__file__))
    try:
        scratch = {}

        def shared(x):
            scratch["v"] = x * 2
            y = scratch["v"] + 1
            return y

        def pure(x):
            v = x * 2
            y = v + 1
            return y

        n, ref = threads.line_events(lambda: shared(5))
        bad = sum(1 for k in range(1, n + 1) if threads.one_preemption(lambda: shared(5), lambda: shared(100), k)[0] != ref)
        n2, ref2 = threads.line_events(lambda: pure(5))
        bad2 = sum(1 for k in range(1, n2 + 1) if threads.one_preemption(lambda: pure(5), lambda: pure(100), k)[0] != ref2)
        assert n >= 3 and bad >= 1 and bad2 == 0, (n, bad, bad2)
    finally:
        _env.REPO = old
    return n + n2


def main():
    for name, fn in sorted(globals().items()):
        if name.startswith("test_"):
            n = fn()
            print(f"  {name}: ok ({n})")


if __name__ == "__main__":
    main()
