"""CLI entry:  python -m mc.main C06 [--tier quick|thorough] [--replay FILE]"""
import os
import sys
import argparse
import importlib


def main():
    ap = argparse.ArgumentParser()
    ap.add_argument("pid")
    ap.add_argument("--tier", default=os.environ.get("VERIF_TIER") or "quick", choices=["quick", "thorough"])
    ap.add_argument("--replay", default=None)
    a = ap.parse_args()
    from . import env, core

    pid = a.pid.upper()
    mod = importlib.import_module(f"checks.{pid.lower()}")
    if a.replay:
        sys.exit(core.replay_file(mod, a.replay))
    ctx = core.Ctx(pid, mod, a.tier, env.SEED)
    mod.plan(ctx)
    sys.exit(ctx.finish())


if __name__ == "__main__":
    main()
