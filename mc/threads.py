"""One-preemption interleaving explorer for calls into the library (CHESS-style, preemption bound 1).

Thread A runs `fA()` under a line tracer restricted to frames of the library under test.  For every line event k of that call, A is
preempted right before executing line k, a second thread runs `fB()` to completion, and A resumes.  All such schedules are enumerated (k = 1 ..
number of line events of the sequential call).  Oracle, given by the caller: the results of both calls must be what the calls return when
they do not overlap.  This decides re-entrancy of a function with respect to module-level scratch state: a function that keeps a shared buffer
between its own lines is exposed by the schedule that runs the other call between the write and the read."""
import sys
import threading

from . import env


def _in_repo(frame):
    return frame.f_code.co_filename.startswith(env.REPO)


def line_events(fA):
    n = [0]

    def tr(frame, event, arg):
        if not _in_repo(frame):
            return None
        if event == "line":
            n[0] += 1
        return tr

    sys.settrace(tr)
    try:
        r = fA()
    finally:
        sys.settrace(None)
    return n[0], r


def one_preemption(fA, fB, k):
    """Run fA; right before its k-th library line, run fB in another thread to completion.  Returns (result of fA, result of fB, where)."""
    n = [0]
    out = {"B": None, "excB": None, "where": None}

    def body():
        try:
            out["B"] = fB()
        except BaseException as e:  # noqa
            out["excB"] = e

    def tr(frame, event, arg):
        if not _in_repo(frame):
            return None
        if event == "line":
            n[0] += 1
            if n[0] == k:
                out["where"] = f"{frame.f_code.co_filename[len(env.REPO) + 1:]}:{frame.f_lineno}"
                t = threading.Thread(target=body)
                t.start()
                t.join()
        return tr

    sys.settrace(tr)
    try:
        rA = fA()
    finally:
        sys.settrace(None)
    if out["excB"] is not None:
        raise out["excB"]
    return rA, out["B"], out["where"]
