"""Reference model of the balance-heuristic (multiple importance sampling) weights.

Written from the property statement:
    logw_s = beta*logL_s - log( sum_t (n_t/N) * exp(beta_t*logL_s - logZ_t) )
    logZ   = log mean_s exp(logw_s)
Two independent formulations: 60-digit ``decimal`` (exact enough for |logL| up to 1e6) and a
plain-float one (scipy logsumexp) used by pipeline monitors.
"""
import decimal
from decimal import Decimal as D

import numpy as np
from scipy.special import logsumexp

CTX = decimal.Context(prec=60, Emax=decimal.MAX_EMAX, Emin=decimal.MIN_EMIN)


def _d(x):
    return D(float(x))


def logw_decimal(batches, betas, logzs, beta):
    """batches: list of 1-D arrays of logL. Returns (list of Decimal logw unnormalised, Decimal logZ)."""
    decimal.setcontext(CTX)
    ns = [len(b) for b in batches]
    N = sum(ns)
    logl = [float(v) for b in batches for v in b]
    out = []
    bet = _d(beta)
    for l in logl:
        L = _d(l)
        terms = [(_d(bt) * L - _d(lz)) + (D(n) / D(N)).ln() for bt, lz, n in zip(betas, logzs, ns)]
        mx = max(terms)
        s = sum((t - mx).exp() for t in terms)
        out.append(bet * L - (mx + s.ln()))
    mx = max(out)
    logz = mx + (sum((w - mx).exp() for w in out) / D(N)).ln()
    return out, logz


def normalised_decimal(logw):
    decimal.setcontext(CTX)
    mx = max(logw)
    e = [(w - mx).exp() for w in logw]
    s = sum(e)
    return [x / s for x in e]


def ess_decimal(logw):
    w = normalised_decimal(logw)
    return D(1) / sum(x * x for x in w)


def logw_float(batches, betas, logzs, beta):
    ns = np.array([len(b) for b in batches], dtype=float)
    N = ns.sum()
    logl = np.concatenate([np.asarray(b, dtype=float) for b in batches])
    betas = np.asarray(betas, dtype=float)
    logzs = np.asarray(logzs, dtype=float)
    comp = logl[:, None] * betas[None, :] - logzs[None, :] + np.log(ns / N)[None, :]
    logw = beta * logl - logsumexp(comp, axis=1)
    logz = logsumexp(logw) - np.log(len(logw))
    return logw, float(logz)


def weights_float(logw):
    w = np.exp(logw - np.max(logw))
    return w / w.sum()


def ess_float(logw):
    w = weights_float(logw)
    return float(1.0 / np.sum(w * w))


def history_of(state):
    """(batches, betas, logzs) of a real StateManager, read from its internals (copies)."""
    h = state._history
    return [np.array(b, dtype=float) for b in h["logl"]], [float(b) for b in h["beta"]], [float(z) for z in h["logz"]]
