"""Exact reference model of systematic resampling (rational arithmetic).

Written from the property statement, not from the code:  tooth i sits at (u0+i)/n and selects
the index j with C_{j-1} < pos <= C_j, C the exact cumulative sums of the weights *as used*.
"""
from fractions import Fraction as F
import math
import numpy as np

SQRTEPS = math.sqrt(float(np.finfo(np.float64).eps))


def used_weights(w):
    """The weight vector the routine is specified to use: renormalised iff |sum-1| > sqrt(eps)."""
    w = np.asarray(w, dtype=float)
    s = float(np.sum(w))
    if abs(s - 1.0) > SQRTEPS:
        return np.array(w) / np.sum(w), True
    return w, False


def cums(w):
    c, acc = [], F(0)
    for x in w:
        acc += F(float(x))
        c.append(acc)
    return c


def breakpoints(n, C):
    """All u0 in (0,1) at which some tooth crosses some cumulative sum: u0 = n*C_j - i."""
    out = set()
    for Cj in C:
        v = n * Cj
        fl = math.floor(v)
        fr = v - fl  # in [0,1)
        # tooth i = fl gives u0 = fr (valid if i<n); fr==0 -> also tooth fl-1 with u0=1 (excluded)
        if 0 <= fl < n and 0 < fr < 1:
            out.add(fr)
    return sorted(out)


def exact_indices(n, C, u0, last_pos):
    """Exact index per tooth for offset u0 (Fraction).  Teeth beyond the total mass map to -1
    (meaning: 'absorbed', any index in [last_pos, m-1] is acceptable)."""
    m = len(C)
    idx = []
    j = 0
    for i in range(n):
        pos = (u0 + i) / n
        while j < m and pos >= C[j]:  # half-open cells [C_{j-1}, C_j): a zero-weight index owns no position
            j += 1
        idx.append(j if j < m else -1)
    return idx


def tooth_window(n, C, u0, tau, last_pos):
    lo = exact_indices(n, C, u0 - tau, last_pos)  # not clamped: a breakpoint just below 0 is a float tie at u0=0
    hi = exact_indices(n, C, u0 + tau, last_pos)
    return lo, hi


def wide_cells(n, w):
    """Cells of the exact u0-partition for resampling n from weights w that are wider than the
    float tie window; returns (cells[(a, b, mid)], C, last_pos, tau)."""
    w = np.asarray(w, dtype=float)
    m = len(w)
    wt, _ = used_weights(w)
    C = cums(wt)
    tau = F(n * (m + 4), 2 ** 52)
    last_pos = max(i for i in range(m) if wt[i] > 0)
    bps = breakpoints(n, C)
    edges = [F(0)] + bps + [F(1)]
    cells = [(a, b, float((a + b) / 2)) for a, b in zip(edges[:-1], edges[1:]) if (b - a) > 6 * tau]
    return cells, C, last_pos, tau
