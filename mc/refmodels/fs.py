"""In-memory file system with an operation log and process-crash semantics.

Mounted by replacing the module-level names the library resolves at call time
(`tempest.core.open`, `tempest.state_manager.open`, their `os`, and `pathlib.Path.mkdir` for
virtual paths), so the REAL save/load code runs unmodified against it.

Crash model = death of the writing process: every completed raw write/rename persists, the
in-flight raw write may be torn at any byte, data still in user-space buffers is lost.
"""
import io
import os as _real_os
import pathlib
import contextlib

ROOT = "/memfs"


class _Raw(io.RawIOBase):
    def __init__(self, fs, path, fd):
        super().__init__()
        self.fs, self.path, self.fd, self.pos = fs, path, fd, 0

    def writable(self):
        return True

    def write(self, b):
        b = bytes(b)
        self.fs._op(("write", self.path, self.pos, b))
        self.pos += len(b)
        return len(b)

    def fileno(self):
        return self.fd

    def close(self):
        if not self.closed:
            self.fs._op(("close", self.path))
        super().close()


class MemFS:
    def __init__(self):
        self.files = {}
        self.dirs = {ROOT}
        self.log = []
        self.fds = {}
        self._next_fd = 1000
        self.fail_at = None  # (op index) -> raise SimulatedCrash when reached
        self.opens = []

    # ---- operations (each appended to the log and applied) ----
    def _op(self, op):
        if self.fail_at is not None and len(self.log) >= self.fail_at:
            raise SimulatedCrash(len(self.log))
        self.log.append(op)
        self._apply(self.files, op)

    @staticmethod
    def _apply(files, op, torn=None):
        k = op[0]
        if k == "create":
            files[op[1]] = b""
        elif k == "write":
            _, path, pos, data = op
            if torn is not None:
                data = data[:torn]
            cur = files.get(path, b"")
            files[path] = cur[:pos] + data + cur[pos + len(data):]
        elif k == "rename":
            _, a, b = op
            files[b] = files.pop(a)
        elif k == "remove":
            files.pop(op[1], None)

    def open(self, path, mode="r", *a, **kw):
        path = str(path)
        self.opens.append((path, mode))
        if "b" not in mode:
            raise ValueError("MemFS supports binary modes only")
        if "r" in mode:
            if path not in self.files:
                raise FileNotFoundError(path)
            return io.BytesIO(self.files[path])
        if "w" in mode:
            parent = _real_os.path.dirname(path)
            if parent not in self.dirs:
                raise FileNotFoundError(f"No such directory: {parent}")
            self._op(("create", path))
            fd = self._next_fd
            self._next_fd += 1
            self.fds[fd] = path
            return io.BufferedWriter(_Raw(self, path, fd))
        raise ValueError(mode)

    def mkdir(self, path, parents=False, exist_ok=False):
        path = str(path)
        if path in self.dirs:
            if not exist_ok:
                raise FileExistsError(path)
            return
        parent = _real_os.path.dirname(path)
        if parent not in self.dirs:
            if not parents:
                raise FileNotFoundError(parent)
            self.mkdir(parent, parents=True, exist_ok=True)
        self.dirs.add(path)
        self.log.append(("mkdir", path))

    def rename(self, a, b):
        a, b = str(a), str(b)
        if a not in self.files:
            raise FileNotFoundError(a)
        self._op(("rename", a, b))

    def fsync(self, fd):
        self._op(("fsync", self.fds.get(fd, fd)))

    def remove(self, p):
        p = str(p)
        if p not in self.files:
            raise FileNotFoundError(p)
        self._op(("remove", p))

    def exists(self, p):
        p = str(p)
        return p in self.files or p in self.dirs

    # ---- crash images ----
    def image(self, base_files, ops, k, torn=None):
        """File contents after ops[:k] (+ the first `torn` bytes of ops[k] if it is a write)."""
        files = dict(base_files)
        for op in ops[:k]:
            self._apply(files, op)
        if torn is not None and k < len(ops) and ops[k][0] == "write":
            self._apply(files, ops[k], torn=torn)
        return files


class SimulatedCrash(BaseException):
    pass


class _OsShim:
    def __init__(self, fs):
        self._fs = fs

    def __getattr__(self, name):
        return getattr(_real_os, name)

    def _virt(self, p):
        return str(p).startswith(ROOT)

    def rename(self, a, b):
        return self._fs.rename(a, b) if self._virt(a) else _real_os.rename(a, b)

    def replace(self, a, b):
        return self._fs.rename(a, b) if self._virt(a) else _real_os.replace(a, b)

    def fsync(self, fd):
        return self._fs.fsync(fd) if fd in self._fs.fds else _real_os.fsync(fd)

    def remove(self, p):
        return self._fs.remove(p) if self._virt(p) else _real_os.remove(p)

    unlink = remove


@contextlib.contextmanager
def mounted(fs):
    import tempest.core as core
    import tempest.state_manager as sm

    shim = _OsShim(fs)
    saved = []

    def setg(mod, name, val):
        saved.append((mod, name, mod.__dict__.get(name, _MISSING)))
        mod.__dict__[name] = val

    def vopen(path, mode="r", *a, **k):
        if str(path).startswith(ROOT):
            return fs.open(path, mode, *a, **k)
        return io.open(path, mode, *a, **k)

    for mod in (core, sm):
        setg(mod, "open", vopen)
        if "os" in mod.__dict__:
            setg(mod, "os", shim)
    o_mkdir, o_exists, o_unlink, o_replace, o_rename = (pathlib.Path.mkdir, pathlib.Path.exists, pathlib.Path.unlink,
                                                        pathlib.Path.replace, pathlib.Path.rename)

    def p_mkdir(self, mode=0o777, parents=False, exist_ok=False):
        if str(self).startswith(ROOT):
            return fs.mkdir(str(self), parents=parents, exist_ok=exist_ok)
        return o_mkdir(self, mode=mode, parents=parents, exist_ok=exist_ok)

    def p_exists(self, *a, **k):
        if str(self).startswith(ROOT):
            return fs.exists(str(self))
        return o_exists(self, *a, **k)

    def p_unlink(self, missing_ok=False):
        if str(self).startswith(ROOT):
            if not fs.exists(str(self)) and missing_ok:
                return
            return fs.remove(str(self))
        return o_unlink(self, missing_ok=missing_ok)

    def p_replace(self, target):
        if str(self).startswith(ROOT):
            fs.rename(str(self), str(target))
            return pathlib.Path(target)
        return o_replace(self, target)

    pathlib.Path.mkdir, pathlib.Path.exists, pathlib.Path.unlink = p_mkdir, p_exists, p_unlink
    pathlib.Path.replace, pathlib.Path.rename = p_replace, p_replace
    try:
        yield fs
    finally:
        pathlib.Path.mkdir, pathlib.Path.exists, pathlib.Path.unlink = o_mkdir, o_exists, o_unlink
        pathlib.Path.replace, pathlib.Path.rename = o_replace, o_rename
        for mod, name, val in reversed(saved):
            if val is _MISSING:
                mod.__dict__.pop(name, None)
            else:
                mod.__dict__[name] = val


_MISSING = object()
