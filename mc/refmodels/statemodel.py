"""Boring reference model of StateManager: dicts and lists that only ever hold deep copies."""
import copy

import numpy as np

CUR = ["u", "x", "logl", "assignments", "blobs", "acceptance", "steps", "efficiency", "ess", "beta", "logz", "calls", "iter"]
HIST = ["u", "x", "logl", "blobs", "iter", "logz", "calls", "steps", "efficiency", "ess", "acceptance", "beta"]


def cp(v):
    return copy.deepcopy(v)


class Model:
    def __init__(self, n_dim):
        self.n_dim = n_dim
        self.cur = {k: None for k in CUR}
        self.hist = {k: [] for k in HIST}

    def set(self, k, v):
        self.cur[k] = cp(v)

    def update(self, d):
        for k, v in d.items():
            self.cur[k] = cp(v)

    def commit(self):
        for k in CUR:
            if k in self.hist and self.cur[k] is not None:
                self.hist[k].append(cp(self.cur[k]))

    def export(self):
        return {"_current": cp(self.cur), "_history": cp(self.hist), "n_dim": self.n_dim}

    def import_(self, d):
        if "_current" in d:
            for k, v in d["_current"].items():
                self.cur[k] = cp(v)
        if "_history" in d:
            for k, v in d["_history"].items():
                self.hist[k] = cp(v)
        if "n_dim" in d:
            self.n_dim = d["n_dim"]

    @classmethod
    def from_dict(cls, d):
        m = cls(d.get("n_dim", 1))
        if "_current" in d:
            for k, v in d["_current"].items():
                m.cur[k] = cp(v)
        if "_history" in d:
            for k, v in d["_history"].items():
                m.hist[k] = cp(v)
        return m


def same(a, b):
    """Deep bit-equality of nested dict/list/ndarray/scalars."""
    if isinstance(a, np.ndarray) or isinstance(b, np.ndarray):
        return isinstance(a, np.ndarray) and isinstance(b, np.ndarray) and a.shape == b.shape and a.dtype == b.dtype and a.tobytes() == b.tobytes()
    if isinstance(a, dict):
        return isinstance(b, dict) and set(a) == set(b) and all(same(a[k], b[k]) for k in a)
    if isinstance(a, (list, tuple)):
        return isinstance(b, (list, tuple)) and len(a) == len(b) and all(same(x, y) for x, y in zip(a, b))
    if isinstance(a, float) and isinstance(b, float) and a != a and b != b:
        return True
    return a == b
