"""Invariants evaluated on every step-boundary state of a probed run."""
import numpy as np

from .refmodels import mis
from . import targets
from .pipeline import TARGETS, PRIORS, digest


# ------------------------------------------------------------------------------------------ C07
def record_errors(cfg, u, x, logl, blobs, want_blobs):
    """List of (field, row, detail) where a particle is not a coherent (u, x, logL, blob) record."""
    pt = PRIORS[cfg["prior"]]
    f = TARGETS[cfg["target"]]
    errs = []
    u = np.asarray(u)
    x = np.asarray(x)
    logl = np.asarray(logl)
    n = len(u)
    if not (len(x) == n and len(logl) == n):
        return [("length", -1, f"u:{len(u)} x:{len(x)} logl:{len(logl)}")]
    if want_blobs:
        if blobs is None or len(blobs) != n:
            return [("length", -1, f"blobs:{None if blobs is None else len(blobs)} for {n} particles")]
    for i in range(n):
        if not (np.all(u[i] >= 0.0) and np.all(u[i] <= 1.0)):
            errs.append(("u-range", i, f"u={u[i].tolist()}"))
        xi = pt(u[i])
        if not np.array_equal(xi, x[i]):
            errs.append(("x", i, f"x={x[i].tolist()} but prior_transform(u)={np.asarray(xi).tolist()}"))
            continue
        li = f(x[i]) * (cfg.get("ll_kwargs") or {}).get("scale", 1.0) + ((cfg.get("ll_args") or [0.0])[0]) + cfg["shift"]
        if cfg.get("ll_noisy") and want_blobs:
            # a likelihood that is not a pure function of x: the stored blob is the serial number of the call, the stored logL must be THAT call's value
            ser = float(np.asarray(blobs[i]).reshape(-1)[0])
            if not (li + targets.call_noise(ser) == logl[i]):
                errs.append(("logl/blob", i, f"logl={logl[i]!r} and blob (call number) {ser!r} do not come from one call of the likelihood at x (that call returned {li + targets.call_noise(ser)!r})"))
            continue
        if not (li == logl[i]):
            errs.append(("logl", i, f"logl={logl[i]!r} but likelihood(x)={li!r}"))
        if want_blobs:
            bi = targets.blob_expected(x[i], cfg)
            if not (bi == float(np.asarray(blobs[i]).reshape(-1)[0])):
                errs.append(("blob", i, f"blob={blobs[i]!r} but blob(x)={bi!r}"))
        if len(errs) > 3:
            break
    return errs


def coherent_monitor(prefix="pipe", resumed=False):
    """C07: current set after every step, appended batch at commit, history prefix unchanged.
    resumed=True: the reference for append-only is the history found at the first commit (a loaded checkpoint)."""
    memo = {"hist_digests": None if resumed else []}

    def mon(ev):
        p = ev.probe
        cfg = p.cfg
        want_blobs = cfg["eval"] in ("blobs", "poolobj_blobs")
        cur = p.state._current
        if cur["u"] is not None and ev.step in ("resample", "mutate", "commit", "reweight", "train"):
            beta = cur["beta"]
            # at beta == 0 resample leaves the previous set in place; it is still a coherent set
            errs = record_errors(cfg, cur["u"], cur["x"], cur["logl"], cur["blobs"], want_blobs)
            for field, row, det in errs[:1]:
                p.violate(f"{prefix}:{ev.step}:{field}", f"iteration {ev.iter} after {ev.step}: particle {row} is not a coherent record: {det}", iter=ev.iter)
            a = cur["assignments"]
            if ev.step in ("resample", "mutate") and (a is None or len(a) != len(cur["u"])) and not (ev.step == "resample" and float(beta) == 0.0):  # (at beta=0 the set is about to be replaced by prior draws)
                p.violate(f"{prefix}:{ev.step}:assignments", f"iteration {ev.iter} after {ev.step}: assignments has {None if a is None else len(a)} entries for {len(cur['u'])} particles", iter=ev.iter)
        if ev.step == "resample" and cur["u"] is not None:
            memo["active"] = {k: (None if cur[k] is None else np.array(cur[k], copy=True)) for k in ("u", "x", "logl", "assignments", "blobs")}
        if ev.step == "mutate" and memo.get("active") is not None:
            # the kernel must be started from exactly the resampled set (whole records, their own labels)
            for kc in ev.info.get("kernel_calls", [])[:1]:
                act = memo["active"]
                for k in ("u", "x", "logl", "assignments"):
                    if act[k] is not None and kc.get(k) is not None and not np.array_equal(np.asarray(kc[k]), act[k]):
                        p.violate(f"{prefix}:mutate:kernel-input:{k}", f"iteration {ev.iter}: the mutation kernel was started with a '{k}' array that is not the resampled active set", iter=ev.iter)
                        break
                if want_blobs and act["blobs"] is not None and (kc.get("blobs") is None or not np.array_equal(np.asarray(kc["blobs"]), act["blobs"])):
                    p.violate(f"{prefix}:mutate:kernel-input:blobs", f"iteration {ev.iter}: the mutation kernel was started with blobs that are not those of the resampled active set", iter=ev.iter)
        if ev.step == "resample" and cur["u"] is not None and float(cur["beta"]) > 0.0 and p.state._history["u"]:
            # the active set is drawn from the CURRENT pool: every resampled particle must be a row of the stored history
            h = p.state._history
            pool = {}
            for ub, xb, lb in zip(h["u"], h["x"], h["logl"]):
                for i in range(len(ub)):
                    pool.setdefault(np.asarray(ub[i]).tobytes(), set()).add((np.asarray(xb[i]).tobytes(), float(lb[i])))  # (a likelihood that is not a pure function of x can store one point with several values)
            for i in range(len(cur["u"])):
                hit = pool.get(np.asarray(cur["u"][i]).tobytes())
                if hit is None or (np.asarray(cur["x"][i]).tobytes(), float(cur["logl"][i])) not in hit:
                    p.violate(f"{prefix}:resample:not-from-pool", f"iteration {ev.iter}: resampled particle {i} is not a particle of the current history pool", iter=ev.iter)
                    break
        if ev.step == "commit":
            h = p.state._history
            T = len(h["beta"])
            for k in ("u", "x", "logl"):
                if len(h[k]) != T:
                    p.violate(f"{prefix}:commit:ragged-history", f"history '{k}' has {len(h[k])} batches, beta has {T}", iter=ev.iter)
                    return
            if want_blobs and len(h["blobs"]) != T:
                p.violate(f"{prefix}:commit:ragged-history", f"history 'blobs' has {len(h['blobs'])} batches, beta has {T}", iter=ev.iter)
                return
            for k in ("u", "x", "logl") + (("blobs",) if want_blobs else ()):
                if not np.array_equal(h[k][-1], cur[k]):
                    p.violate(f"{prefix}:commit:batch:{k}", f"iteration {ev.iter}: committed batch field '{k}' differs from the current particle set", iter=ev.iter)
            errs = record_errors(cfg, h["u"][-1], h["x"][-1], h["logl"][-1], h["blobs"][-1] if want_blobs else None, want_blobs)
            for field, row, det in errs[:1]:
                p.violate(f"{prefix}:history:{field}", f"iteration {ev.iter}: committed particle {row} is not a coherent record: {det}", iter=ev.iter)
            # append-only (shared with C17)
            d = [digest({k: h[k][t] for k in ("u", "x", "logl", "beta", "logz")}) for t in range(T)]
            if memo["hist_digests"] is None:  # after a state load the reference is the loaded history
                memo["hist_digests"] = d[:-1]
            old = memo["hist_digests"]
            if len(d) != len(old) + 1 or d[: len(old)] != old:
                p.violate(f"{prefix}:commit:append-only", f"iteration {ev.iter}: history went from {len(old)} to {len(d)} batches or an earlier batch changed", iter=ev.iter)
            memo["hist_digests"] = d

    mon.reset = lambda: memo.update(hist_digests=None)
    return mon


# ------------------------------------------------------------------------------------------ C05
def resample_law_monitor(prefix="pipe"):
    """C06 at the call site: whatever the process has done before, a sampler configured with the systematic scheme must produce an index vector
    that is non-decreasing with floor/ceil copy counts w.r.t. the weights it was given; no scheme may select a particle of weight 0.
    Pool rows that are identical records (copies kept by a rejected move) are treated as one group."""
    import math

    def mon(ev):
        if ev.step != "resample":
            return
        p = ev.probe
        cur = p.state._current
        w = ev.info.get("weights_in")
        if cur["u"] is None or w is None or not float(cur["beta"]) > 0.0 or not p.state._history["u"]:
            return
        h = p.state._history
        rows = [(np.asarray(ub[i]).tobytes(), np.asarray(xb[i]).tobytes(), float(lb[i])) for ub, xb, lb in zip(h["u"], h["x"], h["logl"]) for i in range(len(ub))]
        w = np.asarray(w, dtype=float)
        if len(rows) != len(w) or not w.sum() > 0:
            return
        wn = w / w.sum()
        groups = {}
        for i, r in enumerate(rows):
            groups.setdefault(r, []).append(i)
        n = len(cur["u"])
        picked = [(np.asarray(cur["u"][i]).tobytes(), np.asarray(cur["x"][i]).tobytes(), float(cur["logl"][i])) for i in range(n)]
        if any(r not in groups for r in picked):
            return  # reported by the coherence monitor as not-from-pool
        for r in set(picked):
            if wn[groups[r]].sum() == 0.0:
                p.violate(f"{prefix}:resample:zero-weight-selected", f"iteration {ev.iter}: a particle of weight 0 (pool index {groups[r][0]}) was resampled (scheme {p.cfg['resample']})", iter=ev.iter)
                return
        if p.cfg["resample"] != "syst":
            return
        prev = 0
        for k, r in enumerate(picked):
            cand = [i for i in groups[r] if i >= prev]
            if not cand:
                p.violate(f"{prefix}:resample:syst:indices-decrease", f"iteration {ev.iter}: the sampler is configured with resample='syst' but the resampled particles are not in pool order "
                          f"(particle {k} is pool row {groups[r]}, the previous one was row >= {prev})", iter=ev.iter)
                return
            prev = cand[0]
        for r, I in groups.items():
            c = sum(1 for q in picked if q == r)
            lo = sum(math.floor(n * wn[i] - 1e-9) for i in I)
            hi = sum(math.ceil(n * wn[i] + 1e-9) for i in I)
            if not lo <= c <= hi:
                p.violate(f"{prefix}:resample:syst:count-law", f"iteration {ev.iter}: resample='syst' gave {c} copies of pool row(s) {I} with n*w = {[float(n * wn[i]) for i in I]}", iter=ev.iter)
                return

    return mon


def reweight_errors(st, n_particles, ess_ratio, vv, beta_prev, w, first=False):
    """Oracle for one reweighting transition on a real StateManager `st` (already updated by
    Reweighter.run()).  Returns a list of (key, msg)."""
    out = []
    beta = float(st._current["beta"])
    w = np.asarray(w, dtype=float)
    target = ess_ratio * n_particles
    T = len(st._history["beta"])
    if first and beta != 0.0:
        out.append(("start", f"first iteration has beta={beta!r}, expected 0"))
    if not (0.0 <= beta <= 1.0):
        out.append(("range", f"beta={beta!r} outside [0,1]"))
    if beta_prev is not None and beta < beta_prev:
        out.append(("monotone", f"beta decreased from {beta_prev!r} to {beta!r}"))
    if abs(float(w.sum()) - 1.0) > 1e-9 or np.any(w < 0) or not np.all(np.isfinite(w)):
        out.append(("weights-normalised", f"weights handed on are not a probability vector (sum={w.sum()!r})"))
    if T > 0:
        batches, betas, logzs = mis.history_of(st)
        lw, lz = mis.logw_float(batches, betas, logzs, beta)
        ess_ref = mis.ess_float(lw)
        w_ref = mis.weights_float(lw)
        if len(w) != len(w_ref):
            out.append(("weights-length", f"{len(w)} weights for a pool of {len(w_ref)}"))
        elif np.max(np.abs(w - w_ref)) > 1e-9:
            out.append(("coherence:weights", f"weights handed to train/resample are not the mixture weights at the recorded beta={beta!r} (max diff {np.max(np.abs(w - w_ref)):.3g})"))
        ess = float(st._current["ess"])
        if abs(ess - ess_ref) > 1e-7 * max(1.0, ess_ref):
            out.append(("coherence:ess", f"recorded ESS {ess!r} is not the ESS at the recorded beta={beta!r} ({ess_ref!r})"))
        logz = float(st._current["logz"])
        if abs(logz - lz) > 1e-8 * (1.0 + abs(lz)):
            out.append(("coherence:logz", f"recorded logZ {logz!r} is not the evidence at the recorded beta={beta!r} ({lz!r})"))
        if beta_prev is not None and beta > beta_prev and ess_ref < target * (1 - 1e-9):
            if vv is None:
                out.append(("ess-target", f"advanced from beta={beta_prev!r} to beta={beta!r} where ESS={ess_ref!r} < target {target!r}"))
            elif ess_ref < target * (1 - 1e-7):
                # volume-variation mode: beta must not lie beyond the ESS-limited temperature, i.e. some temperature >= beta must
                # still have ESS >= target (ESS need not be monotone, so ESS(beta) itself may dip below the target legitimately)
                grid = np.linspace(beta, 1.0, 2049)
                ok = any(mis.ess_float(mis.logw_float(batches, betas, logzs, b)[0]) >= target * (1 - 1e-7) for b in grid[1:])
                if not ok:
                    out.append(("vv-beyond-ess-limit", f"beta={beta!r} lies beyond every temperature with ESS>=target ({target!r}); ESS there is {ess_ref!r}"))
    return out


def schedule_monitor(prefix="sched", resumed=False):
    """resumed=True: the run starts from a loaded checkpoint; the previous temperature is the last one of the loaded history."""
    memo = {"beta_prev": None, "w": None, "first": not resumed}

    def mon(ev):
        p = ev.probe
        cfg = p.cfg
        st = p.state
        if ev.step == "reweight":
            w = np.asarray(ev.info["weights"], dtype=float)
            memo["w"] = w.copy()
            if memo["beta_prev"] is None and not memo["first"]:
                memo["beta_prev"] = float(st._history["beta"][-1]) if st._history["beta"] else 0.0
            for key, msg in reweight_errors(st, cfg["n_particles"], cfg["ess_ratio"], cfg["vv"], memo["beta_prev"], w, first=memo["first"]):
                p.violate(f"{prefix}:{key}", f"iteration {ev.iter}: {msg}", iter=ev.iter)
            memo["first"] = False
            memo["beta_prev"] = float(st._current["beta"])
        elif ev.step in ("train", "resample"):
            w = memo["w"]
            win = np.asarray(ev.info["weights_in"], dtype=float)
            # (tools.trim_weights renormalises its argument in place, so a last-ulp difference is legitimate)
            if w is not None and (win.shape != w.shape or not np.allclose(win, w, rtol=1e-12, atol=1e-300)):
                p.violate(f"{prefix}:coherence:{ev.step}-weights", f"iteration {ev.iter}: weights seen by {ev.step} differ from the ones reweighting returned", iter=ev.iter)
        elif ev.step == "mutate":
            # the kernel must be run at the iteration's temperature, on the resampled set, with the configured boundaries
            from .pipeline import BOUNDARY
            per, ref = BOUNDARY[cfg["boundary"]]
            for kc in ev.info.get("kernel_calls", []):
                if float(kc["beta"]) != float(st._current["beta"]):
                    p.violate(f"{prefix}:coherence:kernel-beta", f"iteration {ev.iter}: the mutation kernel was run at beta={kc['beta']!r} but the iteration's temperature is {st._current['beta']!r}", iter=ev.iter)
                if kc.get("sample") != cfg["sample"]:
                    p.violate(f"{prefix}:coherence:kernel-kind", f"iteration {ev.iter}: kernel '{kc.get('sample')}' used, configuration says '{cfg['sample']}'", iter=ev.iter)
                kp = None if kc.get("periodic") is None else [int(i) for i in kc["periodic"]]
                kr = None if kc.get("reflective") is None else [int(i) for i in kc["reflective"]]
                if (kp or None) != (per or None) or (kr or None) != (ref or None):
                    p.violate(f"{prefix}:coherence:kernel-boundaries", f"iteration {ev.iter}: kernel got periodic={kp} reflective={kr}, configuration says {per}/{ref}", iter=ev.iter)
        elif ev.step == "commit":
            hb = [float(b) for b in st._history["beta"]]
            if any(b2 < b1 for b1, b2 in zip(hb[:-1], hb[1:])):
                p.violate(f"{prefix}:history-monotone", f"history beta not non-decreasing: {hb}", iter=ev.iter)
            if float(st._current["beta"]) != hb[-1]:
                p.violate(f"{prefix}:commit-beta", f"committed beta {hb[-1]!r} differs from the iteration's beta {st._current['beta']!r}", iter=ev.iter)

    mon.reset = lambda: memo.update(beta_prev=None, first=False, w=None)  # after a state load: previous temperature = last one of the loaded history
    return mon


# ------------------------------------------------------------------------------------------ C12
def terminal_errors(p):
    """Post-conditions of run(n_total) on a completed probe. Returns list of (key, msg)."""
    out = []
    st = p.state
    cfg = p.cfg
    beta = float(st._current["beta"])
    if not abs(1.0 - beta) < 1e-4:
        out.append(("post:beta", f"run() returned with beta={beta!r}"))
    batches, betas, logzs = mis.history_of(st)
    lw, lz = mis.logw_float(batches, betas, logzs, 1.0)
    ess = mis.ess_float(lw)
    if ess < cfg["n_total"] * (1 - 1e-9):
        out.append(("post:ess", f"run(n_total={cfg['n_total']}) returned with posterior ESS {ess!r}"))
    ev = p.sampler.evidence()
    if not (isinstance(ev, tuple) and len(ev) == 2) or abs(float(ev[0]) - lz) > 1e-9 * (1 + abs(lz)):
        out.append(("post:evidence", f"evidence() = {ev!r} but the mixture evidence at beta=1 recomputed from the history is {lz!r}"))
    return out
