"""Session explorer: ONE real Sampler object driven through every sequence of public operations
(iterate, save to a slot, load a slot) up to a depth, under an owned tape and an in-memory file
system, with the step-boundary monitors armed.  This is the explicit-state search for defects that
need a history on one object (caches that survive a load, buffers appended incrementally, state
restored incompletely): a state is the operation history; every sequence is replayed from a fresh
object; the random tape is re-seeded from the operation index, so the continuation after a load is
a genuinely different branch of the run.
"""
import itertools

import numpy as np

from . import env
from . import pipeline as pl
from .pipeline import Probe, iter_seed, TARGETS, PRIORS
from .refmodels.fs import MemFS
from .tape import OwnedRandom
from . import targets

OPS = ["S", "V0", "L0", "V1", "L1"]   # "R" (a complete run() on the same object) appears in the longer patterns only


def valid(seq):
    saved = set()
    for op in seq:
        if op[0] == "V":
            saved.add(op[1])
        elif op[0] == "L" and op[1] not in saved:
            return False
    return True


FAIL_OPS = ["S", "X1", "X4", "X11", "K2", "K9"]  # Xk: an iteration in which the user's likelihood raises at its k-th evaluation (if it gets that far)


def sequences(depth, first=None, ops=None):
    for seq in itertools.product(ops or OPS, repeat=depth):
        if first is not None and list(seq[: len(first)]) != list(first):
            continue
        if not valid(seq):
            continue
        if "S" not in seq and not any(o[0] in "XKRPD" for o in seq):
            continue
        # a load must be followed by at least one iteration somewhere for anything to be observable
        yield seq


def patterns():
    """Longer operation sequences of the generic shapes 'save, advance, roll back, advance' and 'two slots: branch and swap'."""
    out = []
    for a in (1, 2, 3):
        for b in (1, 2, 3):
            out.append(("V0",) + ("S",) * a + ("L0",) + ("S",) * b)
    for a in (1, 2):
        for b in (1, 2):
            for c in (0, 1, 2):
                out.append(("V0",) + ("S",) * a + ("V1", "L0") + ("S",) * b + ("L1",) + ("S",) * c)
                out.append(("S", "V0") + ("S",) * a + ("V1", "L0") + ("S",) * b + ("L1",) + ("S",) * c)
    # complete run() calls on an object that is already in use (a second run continues from the stored history)
    out += [("R",), ("R", "R"), ("S", "R"), ("R", "S", "S"), ("R", "V0", "R", "L0", "S"), ("V0", "R", "L0", "R"), ("R", "R", "S")]
    # iterations aborted by a failure of the user's likelihood, mixed with checkpoints and complete runs
    # the sampler is pickled / deep-copied in the middle of its life and the copy carries on
    out += [("P", "S"), ("S", "P", "S", "S"), ("V0", "P", "S", "L0", "S"), ("P", "V0", "S", "P", "L0", "S"), ("D", "S", "S"), ("S", "D", "S", "V0", "S", "L0", "S"), ("P", "R"), ("D", "R", "S"), ("X4", "P", "S"), ("D", "X4", "S")]
    out += [("Dl",), ("Pl",), ("S", "Dl", "S"), ("S", "S", "Pl", "S"), ("V0", "S", "Dl", "L0", "S"), ("Dl", "Pl", "Dl"), ("R", "Dl"), ("X4", "Dl", "S"), ("Pl", "R")]
    out += [("X1", "R"), ("X4", "V0", "S", "L0", "S"), ("V0", "X11", "L0", "S"), ("V0", "S", "X4", "V1", "L0", "X1", "S"), ("X4", "X4", "R"), ("R", "X1", "S")]
    return out


class Session:
    def __init__(self, cfg, base, monitors, warm=3, reseed=True):
        self.reseed = reseed
        self.fs = MemFS()
        self.fs.mkdir("/memfs/sess", parents=True, exist_ok=True)
        self.p = Probe(cfg, base=base, monitors=monitors, fs=self.fs, max_iters=10 ** 6)
        self.base = base
        self.opno = 0
        self.warm = warm
        self.err = None
        self.failures = 0
        self.copies = 0
        self.originals = []

    def _history_digest(self):
        h = self.p.state._history
        return tuple((k, len(h[k]), b"".join(np.asarray(b).tobytes() for b in h[k] if b is not None and not isinstance(b, (dict, str)))) for k in ("u", "x", "logl", "beta", "logz") if k in h)

    def _ctx(self):
        return (env.quiet(), pl.instrumented(), self.p.tape, self.p._mount())

    def run(self, seq, after_op=None):
        p = self.p
        prev = pl._ACTIVE
        pl._ACTIVE = p
        # the harness owns the per-iteration reseeding here: by operation index, not by iteration number
        p._begin_iter = self._begin_iter
        try:
            with env.quiet(), pl.instrumented(), p.tape, p._mount():
                p.sampler._core._initialize_fresh()
                for _ in range(self.warm):
                    self.opno += 1
                    p.sampler.sample()
                for op in seq:
                    self.opno += 1
                    if op == "S":
                        p.sampler.sample()
                    elif op[0] in "XK":  # Xk: an exception, Kk: a KeyboardInterrupt at the k-th likelihood evaluation of the iteration
                        before = self._history_digest()
                        p.ll.fail_countdown = int(op[1:])
                        p.ll.fail_kind = "kbd" if op[0] == "K" else "exc"
                        try:
                            p.sampler.sample()
                        except (pl.UserFailure, pl.UserInterrupt):
                            self.failures += 1
                            p.in_iter = False
                            if self._history_digest() != before:
                                p.violate("session:failed-iteration:history-changed", f"an iteration aborted by an exception of the user's likelihood (evaluation {op[1:]} of the iteration) changed the committed history")
                        finally:
                            p.ll.fail_countdown = None
                    elif op == "R":
                        p.sampler.run(n_total=p.cfg.get("run_total", 3 * p.cfg["n_particles"]), progress=False)
                    elif op in ("Pl", "Dl"):
                        # lockstep: the live sampler is copied (pickle round trip / deep copy); ONE iteration is then made on the original
                        # (monitors muted) and on the copy under the same tape seed: a copy must behave exactly like the object it was made from.
                        # The session continues with the copy.
                        import copy as _copy
                        import pickle as _pickle
                        old = p.sampler
                        new = _pickle.loads(_pickle.dumps(old)) if op == "Pl" else _copy.deepcopy(old)
                        p.mute = True
                        try:
                            old.sample()
                        finally:
                            p.mute = False
                        d_old = pl.digest(pl.snap(old.state))
                        p.sampler, p.state = new, new.state
                        f = new._core.config.log_likelihood
                        p.ll = getattr(f, "f", f)
                        self.copies += 1
                        new.sample()
                        if pl.digest(pl.snap(new.state)) != d_old:
                            ho, hn = old.state._history, new.state._history
                            first = next((k for k in ("beta", "logz", "u", "x", "logl") if len(ho[k]) != len(hn[k]) or not np.array_equal(np.asarray(ho[k][-1]), np.asarray(hn[k][-1]))), "current state")
                            p.violate("session:copy:diverges-from-original", f"after {op}: one iteration on the {'unpickled' if op == 'Pl' else 'deep-copied'} sampler and on the original, under the same random tape, "
                                      f"give different states (first difference: {first})")
                    elif op in ("P", "D"):
                        # P: the sampler goes through a pickle round trip, D: it is deep-copied; the session continues with the COPY.
                        # After D the original stays alive and must not change while the copy is used.
                        import copy as _copy
                        import pickle as _pickle
                        old = p.sampler
                        new = _pickle.loads(_pickle.dumps(old)) if op == "P" else _copy.deepcopy(old)
                        if op == "D":
                            self.originals.append((old, pl.digest(pl.snap(old.state))))
                        p.sampler, p.state = new, new.state
                        f = new._core.config.log_likelihood
                        p.ll = getattr(f, "f", f)
                        self.copies += 1
                    elif op[0] == "V":
                        p.sampler.save_state(f"/memfs/sess/slot{op[1]}.state")
                    elif op[0] == "L":
                        p.sampler.load_state(f"/memfs/sess/slot{op[1]}.state")
                        for m in p.monitors:
                            if hasattr(m, "reset"):
                                m.reset()
                    for k, (orig, dg) in enumerate(self.originals):
                        if pl.digest(pl.snap(orig.state)) != dg:
                            p.violate("session:deepcopy:original-changed", f"after {op}: the state of a sampler that was deep-copied earlier changed while only its copy was used")
                            self.originals[k] = (orig, pl.digest(pl.snap(orig.state)))
                    if after_op is not None:
                        after_op(self, op)
        except Exception as e:
            self.err = e
        finally:
            pl._ACTIVE = prev
        return self

    def _begin_iter(self):
        p = self.p
        p.iters += 1
        p.in_iter = True
        if self.reseed:
            p.tape.rs.seed(iter_seed(self.base, self.opno, "op"))
        if getattr(self, "on_iteration_start", None) is not None:
            self.on_iteration_start(self)


def record_rows_ok(cfg, u, x, logl, blobs, want_blobs):
    from .monitors import record_errors
    return record_errors(cfg, u, x, logl, blobs, want_blobs)


def accessor_oracle(sess, op):
    """Everything handed out after an operation must consist of whole records of the CURRENT history."""
    p = sess.p
    st = p.state
    cfg = p.cfg
    want_blobs = cfg["eval"] in ("blobs", "poolobj_blobs")
    T = len(st._history["beta"])
    if T == 0:
        return
    flat = {k: st.get_history(k, flat=True) for k in ("u", "x", "logl") + (("blobs",) if want_blobs else ())}
    for k, v in flat.items():
        ref = np.concatenate([np.asarray(b) for b in st._history[k]])
        if v.shape != ref.shape or v.tobytes() != ref.tobytes():
            p.violate(f"session:flat-history:stale:{k}", f"after {op}: get_history('{k}', flat=True) is not the concatenation of the stored batches (stale or foreign data handed out)")
            return
    n = {k: len(v) for k, v in flat.items()}
    N = sum(len(b) for b in st._history["logl"])
    if len(set(n.values())) != 1 or n["u"] != N:
        p.violate("session:flat-history:lengths", f"after {op}: flattened histories have lengths {n}, the stored history holds {N} particles")
        return
    errs = record_rows_ok(cfg, flat["u"], flat["x"], flat["logl"], flat.get("blobs"), want_blobs)
    for field, row, det in errs[:1]:
        p.violate(f"session:flat-history:{field}", f"after {op}: particle {row} of the flattened history is not a coherent record: {det}")
    from .refmodels import mis
    batches, betas, logzs = mis.history_of(st)
    lw_ref, lz_ref = mis.logw_float(batches, betas, logzs, 1.0)
    w_ref = mis.weights_float(lw_ref)
    with OwnedRandom(3):
        out = p.sampler.posterior(return_blobs=want_blobs, trim_importance_weights=False)
    x, w, ll = out[0], out[1], out[2]
    f = TARGETS[cfg["target"]]
    if not (len(x) == len(ll) == len(w) == N):
        p.violate("session:posterior:lengths", f"after {op}: posterior() returned {len(x)} rows for a history of {N} particles")
        return
    for i in range(len(x)):
        if not (f(x[i]) + cfg["shift"] == ll[i]) or (want_blobs and not (targets.blob_expected(x[i], cfg) == float(np.ravel(out[3][i])[0]))):
            p.violate("session:posterior:record", f"after {op}: posterior() row {i} is not a whole record")
            break
    if np.max(np.abs(np.asarray(w) - w_ref)) > 1e-9:
        p.violate("session:posterior:weights", f"after {op}: posterior() weights are not the mixture weights of the stored history (max diff {np.max(np.abs(np.asarray(w) - w_ref)):.3g}): stale or foreign weights handed out")
    lwz = st.compute_logw_and_logz(1.0)
    if abs(float(lwz[1]) - lz_ref) > 1e-9 * (1 + abs(lz_ref)):
        p.violate("session:evidence", f"after {op}: compute_logw_and_logz(1.0) evidence {float(lwz[1])!r} is not the evidence of the stored history ({lz_ref!r})")
    # trimmed posterior: the trimming contract relative to the weights of the CURRENT history
    # same options first and last: a single-entry memo keyed on the options survives from one operation to the next
    for (et, bt) in ((0.99, 1000), (0.9, 10), (0.99, 1000)):
        with OwnedRandom(3):
            xt, wt, lt = p.sampler.posterior(trim_importance_weights=True, ess_trim=et, bins_trim=bt)[:3]
        pos = {}
        for i, xi in enumerate(np.concatenate(st._history["x"])):
            pos.setdefault(np.asarray(xi).tobytes(), []).append(i)
        rows = [pos.get(np.asarray(xi).tobytes(), [None])[0] for xi in xt]
        if any(r is None for r in rows):
            p.violate("session:trim:foreign-row", f"after {op}: posterior(trim) returned a row that is not a stored particle")
            break
        wr = w_ref[rows]
        if np.max(np.abs(np.asarray(wt) - wr / wr.sum())) > 1e-9:
            p.violate("session:trim:weights", f"after {op}: posterior(ess_trim={et}, bins_trim={bt}) weights are not the renormalised mixture weights of the returned rows (stale trimming result?)")
            break
        e_all, e_kept = 1.0 / np.sum(w_ref ** 2), 1.0 / np.sum((wr / wr.sum()) ** 2)
        if e_kept / e_all < et - 1e-9:
            p.violate("session:trim:ess-fraction", f"after {op}: posterior(ess_trim={et}) kept ESS fraction {e_kept / e_all!r}")
            break


def run_case(case, make_monitors, oracle=accessor_oracle, key_pred=None, prefix=""):
    """Generic case executor used by several checks: sequences = case['only'] | patterns shard | all sequences of a depth."""
    from .core import Res

    res = Res()
    cfg = dict(case["cfg"])
    if case.get("only"):
        seqs = [tuple(case["only"])]
    elif case.get("patterns"):
        seqs = patterns()[case["patterns"][0]::case["patterns"][1]]
    else:
        seqs = list(sequences(case["depth"], first=case.get("first"), ops=case.get("ops")))
        if case.get("shard"):
            seqs = seqs[case["shard"][0]::case["shard"][1]]
    for seq in seqs:
        s = Session(cfg, case["base"], make_monitors())
        s.p.abstract = set()
        s.run(seq, after_op=oracle)
        res.evals += 1
        res.states += len(seq)
        res.trans += s.p.events
        res.traces += 1
        cc = dict(case, only=list(seq))
        if s.failures:
            res.bump("likelihood_failures_injected", s.failures)
        if s.err is not None:
            res.bump("aborted_sessions")
            res.bump("aborted:" + type(s.err).__name__)
            if case.get("raise_is_violation"):
                res.violate(f"{prefix}session:raises:{type(s.err).__name__}", f"operations {' '.join(seq)} on one sampler object raised {s.err!r} (cfg={cfg})", cc)
        seen = set()
        for key, msg, det in s.p.viol:
            if key in seen or (key_pred is not None and not key_pred(key)):
                continue
            seen.add(key)
            res.violate(prefix + key, msg + f" [one sampler object, operations after 3 iterations: {' '.join(seq)}; cfg={cfg}]", cc)
        res.outcome(("session", tuple(sorted((k, repr(v)) for k, v in cfg.items())), seq), nontrivial=any(o[0] == "L" for o in seq))
    res.sample({"cfg": cfg, "sequences": len(seqs), "example": list(seqs[len(seqs) // 2]) if seqs else None}, cap=1)
    return res


# ------------------------------------------------------------------------------------------------------------------
# Duo sessions: TWO samplers alive in one process, their public operations interleaved in every order up to a depth.
DUO_OPS = ["aS", "bS", "aP", "bP"]


def duo_sequences(depth):
    for seq in itertools.product(DUO_OPS, repeat=depth):
        if "aS" in seq and "bS" in seq:
            yield seq


class _Shim:
    """What accessor_oracle needs of a Session: the probe."""
    def __init__(self, p):
        self.p = p


def run_duo(case, make_monitors, oracle=None, key_pred=None):
    """Every interleaving of {iterate A, iterate B, query A, query B}: each sampler's recorded quantities must refer to ITS OWN history."""
    from .core import Res

    res = Res()
    cfg = dict(case["cfg"])
    seqs = [tuple(case["only"])] if case.get("only") else list(duo_sequences(case["depth"]))[case["shard"][0]::case["shard"][1]]
    for seq in seqs:
        A = Probe(cfg, base=case["base"], monitors=make_monitors(), max_iters=10 ** 6)
        B = Probe(dict(cfg, **case.get("cfg_b", {})), base=case["base"] + 1, monitors=make_monitors(), max_iters=10 ** 6)  # B is constructed last
        probes = {"a": A, "b": B}
        A.abstract, B.abstract = set(), set()
        opno = [0]
        for q in (A, B):
            def begin(q=q):
                q.iters += 1
                q.in_iter = True
                A.tape.rs.seed(iter_seed(case["base"], opno[0], "duo" + ("A" if q is A else "B")))
            q._begin_iter = begin
        err = None
        pl._REG[id(A.state)] = A
        pl._REG[id(B.state)] = B
        try:
            with env.quiet(), pl.instrumented(), A.tape:
                for q in (A, B):
                    q.sampler._core._initialize_fresh()
                for _ in range(2):
                    for q in (A, B):
                        opno[0] += 1
                        q.sampler.sample()
                for op in seq:
                    opno[0] += 1
                    q = probes[op[0]]
                    if op[1] == "S":
                        q.sampler.sample()
                    else:
                        with OwnedRandom(3):
                            q.sampler.posterior()
                            q.sampler.results()
                            q.state.compute_logw_and_logz(1.0)
                    if oracle is not None:  # everything either sampler hands out must refer to ITS OWN current history
                        for name2, q2 in probes.items():
                            oracle(_Shim(q2), f"{op} (asked of sampler {name2.upper()})")
        except Exception as e:
            err = e
        finally:
            pl._REG.pop(id(A.state), None)
            pl._REG.pop(id(B.state), None)
        res.evals += 1
        res.states += len(seq)
        res.trans += A.events + B.events
        res.traces += 1
        cc = dict(case, only=list(seq))
        if err is not None:
            res.bump("aborted_sessions")
            res.bump("aborted:" + type(err).__name__)
        for name, q in probes.items():
            seen = set()
            for key, msg, det in q.viol:
                if key in seen or (key_pred is not None and not key_pred(key)):
                    continue
                seen.add(key)
                res.violate("duo:" + key, f"sampler {name.upper()} of two samplers alive in one process: " + msg + f" [interleaving after 2 iterations each: {' '.join(seq)}; cfg={cfg}"
                            + (f"; sampler B differs in {case['cfg_b']}" if case.get("cfg_b") else "") + "]", cc)
        res.outcome(("duo", tuple(sorted((k, repr(v)) for k, v in cfg.items())), seq), nontrivial=True)
    res.sample({"cfg": cfg, "interleavings": len(seqs), "example": list(seqs[len(seqs) // 2]) if seqs else None}, cap=1)
    return res


# ---------------------------------------------------------------------------------------------
# Resuming a checkpoint in a sampler with OTHER options (the history then holds batches of another size / kernel / cadence):
# a start from a non-initial state that no run from scratch reaches.
CROSS = [  # (options of the run that writes the checkpoints, options that differ in the resuming sampler)
    ({"n_particles": 16}, {"n_particles": 24}), ({"n_particles": 24}, {"n_particles": 8}), ({"n_particles": 16}, {"n_particles": 16, "sample": "rwm"}),
    ({"resample": "mult"}, {"resample": "syst", "n_particles": 12}), ({"clustering": False}, {"clustering": True, "cluster_every": 2}),
    ({"clustering": True, "target": "bimodal"}, {"clustering": False, "target": "bimodal"}), ({"clustering": True, "target": "bimodal", "cluster_every": 1}, {"clustering": True, "target": "bimodal", "cluster_every": 3, "n_particles": 24}),
    ({"ess_ratio": 2.0}, {"ess_ratio": 1.0}), ({"ess_ratio": 1.0}, {"ess_ratio": 3.0, "n_particles": 8}), ({"vv": None}, {"vv": 0.5}), ({"vv": 0.5}, {"vv": None, "n_particles": 24}),
    ({"eval": "scalar"}, {"eval": "vec"}), ({"eval": "blobs"}, {"eval": "blobs", "n_particles": 8, "resample": "syst"}), ({"boundary": "none"}, {"boundary": "per0ref1"}),
    ({"n_steps": None}, {"n_steps": 3, "n_max_steps": 6}),
]


def run_cross_resume(case, make_monitors, key_pred=None, post=None):
    """Run with options A writing a checkpoint per iteration; a FRESH sampler with options B resumes the first / middle / last checkpoint.
    Monitors are armed on the resumed run; `post(probe)` yields (key, msg) for the completed resumed run."""
    from .core import Res

    res = Res()
    base_cfg = dict(case["cfg"])
    a_opts, b_opts = case["pair"]
    cfg_a = dict(base_cfg, **a_opts, save_every=1, output_dir="/memfs/out")
    fs = MemFS()
    pa = Probe(cfg_a, base=case["base"], fs=fs)
    pa.run()
    res.evals += 1
    if pa.exc is not None:
        res.bump("writer_run_aborted")
        return res
    cks = sorted((k for k in fs.files if k.endswith(".state") and not k.endswith("_final.state")), key=lambda s_: int(s_.rsplit("_", 1)[1].split(".")[0]))
    pick = sorted(set([cks[0], cks[len(cks) // 2], cks[-1]])) if cks else []
    if case.get("only"):
        pick = [case["only"]]
    for path in pick:
        it0 = int(path.rsplit("_", 1)[1].split(".")[0])
        cfg_b = dict(base_cfg, **a_opts)
        cfg_b.update(b_opts)
        cfg_b["n_total"] = case.get("n_total_b", 2 * base_cfg["n_total"])  # a larger target: the resumed run has iterations of its own
        pb = Probe(cfg_b, base=case["base"] + 31, fs=fs, monitors=make_monitors(), iter_offset=it0)
        pb.abstract = set()
        pb.run(resume_state_path=path)
        res.evals += 1
        res.states += pb.events
        res.trans += pb.events
        res.traces += 1
        cc = dict(case, only=path)
        tag = f" [checkpoint {path} written by a run with {a_opts or 'base options'}, resumed by a fresh sampler with {b_opts}; base cfg={base_cfg}]"
        found = list(pb.viol)
        if pb.exc is not None:
            found.append((f"cross-resume:raises:{type(pb.exc).__name__}", f"the resumed run raised {pb.exc!r}", {}))
        elif post is not None:
            found += [(k, m, {}) for k, m in post(pb)]
        seen = set()
        for key, msg, det in found:
            if key in seen or (key_pred is not None and not key_pred(key)):
                continue
            seen.add(key)
            res.violate("cross-resume:" + key if not key.startswith("cross-resume:") else key, msg + tag, cc)
        res.outcome(("cross", repr(a_opts), repr(b_opts), path), nontrivial=True)
    return res
