"""Binds the machinery to /repo's *working tree* and silences the library's chatter.

Importing this module (first thing every check does) guarantees that ``tempest`` is the
package under /repo (or $VERIF_REPO), never an installed copy, so that checks rebuild from
the current sources every time they are run.
"""
import os
import sys
import io
import contextlib

REPO = os.environ.get("VERIF_REPO", "/repo")
VERIF = os.path.dirname(os.path.dirname(os.path.abspath(__file__)))

os.environ.setdefault("TEMPEST_VERIF", "1")
for _v in ("OMP_NUM_THREADS", "OPENBLAS_NUM_THREADS", "MKL_NUM_THREADS"):
    os.environ.setdefault(_v, "1")

if sys.path[0] != REPO:
    sys.path.insert(0, REPO)

# drop any previously imported copy (never happens under ./check, matters in notebooks)
for _m in [m for m in sys.modules if m == "tempest" or m.startswith("tempest.")]:
    del sys.modules[_m]

import numpy as np  # noqa: E402

np.seterr(all="ignore")

import tempest  # noqa: E402

_tf = os.path.realpath(tempest.__file__)
if not _tf.startswith(os.path.realpath(REPO) + os.sep):
    print(f"HARNESS-ERROR: tempest imported from {_tf}, expected under {REPO}")
    sys.exit(2)

SEED = int(os.environ.get("VERIF_SEED", "0") or 0)
NPROC = int(os.environ.get("VERIF_NPROC", "0") or 0) or min(16, os.cpu_count() or 1)


@contextlib.contextmanager
def quiet():
    """Swallow stdout/stderr noise from the library (tqdm, 'Saving state', EM warnings)."""
    so, se = sys.stdout, sys.stderr
    sys.stdout, sys.stderr = io.StringIO(), io.StringIO()
    try:
        yield
    finally:
        sys.stdout, sys.stderr = so, se
