"""Evidence writer: /verif/evidence/<id>.json, structurally validated before it is written."""
import os
import json

from . import env

LEVELS = {"exploration", "fault_enumeration", "model_checking", "proof", "translation_validation", "other"}


def _validate(ev):
    for k in ("property_id", "tier", "seed", "level", "coverage", "wall_s"):
        assert k in ev, f"evidence lacks {k}"
    assert ev["tier"] in ("quick", "thorough")
    assert isinstance(ev["seed"], int)
    assert ev["level"] in LEVELS
    cov = ev["coverage"]
    assert isinstance(cov.get("samples"), list)
    for k in ("evaluations", "distinct_nontrivial", "states", "transitions", "traces_validated_against_impl"):
        assert isinstance(cov[k], int) and cov[k] >= 0, k
    assert isinstance(cov["rule"], str)


def write(pid, ev):
    _validate(ev)
    d = os.environ.get("VERIF_EVIDENCE_DIR") or os.path.join(env.VERIF, "evidence")  # override: scratch runs on mutated trees
    os.makedirs(d, exist_ok=True)
    tmp = os.path.join(d, f".{pid}.json.tmp")
    with open(tmp, "w") as f:
        json.dump(ev, f, indent=1, sort_keys=True)
        f.write("\n")
    os.replace(tmp, os.path.join(d, f"{pid}.json"))
