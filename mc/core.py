"""Check context: result aggregation, parallel exploration, violation protocol, evidence.

Every check module exposes

    LEVEL   = "model_checking" | "exploration" | "fault_enumeration"
    RULE    = str                       (how cases are enumerated / what is non-trivial)
    KINDS   = {kind: fn(case)->Res}     (case executors; also used for --replay)
    plan(ctx) -> None                   (enumerates cases, calls ctx.explore(...))

A *case* is a JSON-able dict with a "kind" key.  A case executor runs the REAL code on every
execution the case stands for (one input, one block of a lattice, one subtree of choice
lists) and returns a Res.  Violations carry a stable ``key`` that identifies the failing
input / call site / history class; known findings are matched on that key only.
"""
import os
import sys
import json
import time
import hashlib
import fnmatch
import traceback
import multiprocessing as mp

from . import env

H64 = lambda s: int.from_bytes(hashlib.blake2b(repr(s).encode(), digest_size=8).digest(), "big")  # noqa: E731


def jsonable(o):
    import numpy as np

    if isinstance(o, dict):
        return {str(k): jsonable(v) for k, v in o.items()}
    if isinstance(o, (list, tuple, set, frozenset)):
        return [jsonable(v) for v in o]
    if isinstance(o, np.ndarray):
        return jsonable(o.tolist())
    if isinstance(o, (np.integer,)):
        return int(o)
    if isinstance(o, (np.floating,)):
        o = float(o)
    if isinstance(o, float):
        if o != o or o in (float("inf"), float("-inf")):
            return repr(o)
        return o
    if isinstance(o, (np.bool_,)):
        return bool(o)
    if isinstance(o, (str, int, bool)) or o is None:
        return o
    if isinstance(o, bytes):
        return o.hex()
    return repr(o)


class Res:
    """Aggregated result of one case (or block of executions)."""

    __slots__ = ("evals", "states", "trans", "traces", "outcomes", "nontrivial", "viol", "vcount", "samples", "extra")

    def __init__(self):
        self.evals = 0
        self.states = 0
        self.trans = 0
        self.traces = 0
        self.outcomes = set()
        self.nontrivial = set()
        self.viol = []
        self.vcount = {}
        self.samples = []
        self.extra = {}

    def outcome(self, o, nontrivial=True):
        h = o if isinstance(o, int) else H64(o)
        self.outcomes.add(h)
        if nontrivial:
            self.nontrivial.add(h)

    def violate(self, key, msg, case, **detail):
        """Record a violation. Every distinct key keeps up to 5 replayable cases; all are counted."""
        self.vcount[key] = self.vcount.get(key, 0) + 1
        if sum(1 for v in self.viol if v["key"] == key) < 5:
            self.viol.append({"key": key, "msg": msg, "case": jsonable(case), "detail": jsonable(detail)})

    def bump(self, k, n=1):
        self.extra[k] = self.extra.get(k, 0) + n

    def sample(self, s, cap=3):
        if len(self.samples) < cap:
            self.samples.append(jsonable(s))

    def merge(self, o):
        self.evals += o.evals
        self.states += o.states
        self.trans += o.trans
        self.traces += o.traces
        self.outcomes |= o.outcomes
        self.nontrivial |= o.nontrivial
        have = {}
        for v in self.viol:
            have[v["key"]] = have.get(v["key"], 0) + 1
        for v in o.viol:
            if have.get(v["key"], 0) < 5:
                self.viol.append(v)
                have[v["key"]] = have.get(v["key"], 0) + 1
        for k, c in o.vcount.items():
            self.vcount[k] = self.vcount.get(k, 0) + c
        for s in o.samples:
            if len(self.samples) < 8:
                self.samples.append(s)
        for k, v in o.extra.items():
            if isinstance(v, (int, float)):
                self.extra[k] = self.extra.get(k, 0) + v
            elif isinstance(v, (set, frozenset)):
                self.extra[k] = set(self.extra.get(k, set())) | set(v)
            else:
                self.extra[k] = v


_KINDS = None


class CaseTimeout(BaseException):
    pass


def _alarm(signum, frame):
    raise CaseTimeout()


CASE_TIMEOUT_S = int(os.environ.get("VERIF_CASE_TIMEOUT", "900"))


def _exec_case(case):
    """Worker-side: run one case, never let an exception escape un-attributed; a case that does not
    finish within CASE_TIMEOUT_S is a hard harness error (waiting must be made visible by the check)."""
    import signal

    try:
        fn = _KINDS[case["kind"]]
        old = signal.signal(signal.SIGALRM, _alarm)
        signal.alarm(CASE_TIMEOUT_S)
        try:
            with env.quiet():
                r = fn(case)
        finally:
            signal.alarm(0)
            signal.signal(signal.SIGALRM, old)
        return r
    except BaseException as e:  # a harness bug, not a property violation
        r = Res()
        r.extra["harness_errors"] = 1
        r.extra["harness_error_text"] = "".join(traceback.format_exception(type(e), e, e.__traceback__))[-3000:]
        r.extra["harness_error_case"] = json.dumps(jsonable(case))[:500]
        return r


class Ctx:
    def __init__(self, pid, module, tier, seed):
        self.pid = pid
        self.mod = module
        self.tier = tier
        self.seed = seed
        self.res = Res()
        self.t0 = time.time()
        self.bounds = {}
        self.caps = []
        self.notes = []
        self.exhaustive = True
        self.phases = {}

    @property
    def thorough(self):
        return self.tier == "thorough"

    def cap(self, what):
        """Declare that a cap was hit: the run is not exhaustive over the stated space."""
        self.caps.append(what)
        self.exhaustive = False

    def explore(self, phase, cases, chunksize=1, parallel=True):
        """Run all cases (in parallel, deterministic merge order)."""
        global _KINDS
        _KINDS = self.mod.KINDS
        cases = list(cases)
        t = time.time()
        agg = Res()
        if os.environ.get("VERIF_FAILFAST") and self._unlisted_violation():
            # scratch runs against seeded changes only (tools/seed_*.sh): a violation has been found, later phases are skipped
            self.phases[phase] = {"cases": len(cases), "skipped": "VERIF_FAILFAST"}
            return agg
        if parallel and env.NPROC > 1 and len(cases) > 1:
            ctx = mp.get_context("fork")
            # one fresh forked process per chunk of cases: library state (module/class-level caches) cannot leak from one case into another
            with ctx.Pool(min(env.NPROC, len(cases)), maxtasksperchild=1) as pool:
                for r in pool.imap(_exec_case, cases, chunksize):
                    agg.merge(r)
        else:
            for c in cases:
                agg.merge(_exec_case(c))
        self.phases[phase] = {
            "cases": len(cases),
            "evaluations": agg.evals,
            "distinct_outcomes": len(agg.outcomes),
            "violations": len(agg.viol),
            "wall_s": round(time.time() - t, 2),
        }
        self.res.merge(agg)
        return agg

    def _unlisted_violation(self):
        from . import findings
        known = findings.load(self.pid)
        return any(findings.match(known, v["key"]) is None for v in self.res.viol)

    # ------------------------------------------------------------------ finishing
    def finish(self):
        from . import findings

        res = self.res
        if res.extra.get("harness_errors"):
            print(f"HARNESS-ERROR: property={self.pid} {res.extra.get('harness_errors')} case(s) raised inside the harness")
            print(res.extra.get("harness_error_case", ""))
            print(res.extra.get("harness_error_text", ""))
            self._write_evidence(0, 0, harness_error=True)
            return 2
        known = findings.load(self.pid)
        by_key = {}
        for v in res.viol:
            by_key.setdefault(v["key"], []).append(v)
        n_unlisted = 0
        n_known = 0
        printed = set()
        lines = []
        for key in sorted(by_key):
            vs = by_key[key]
            f = findings.match(known, key)
            nk = res.vcount.get(key, len(vs))
            if f is not None:
                n_known += nk
                if f["match"] not in printed:
                    printed.add(f["match"])
                    lines.append(f"KNOWN-FINDING: property={self.pid} {f['what']} [key pattern {f['match']}]")
                continue
            # unlisted: replay before reporting
            v = vs[0]
            path = self._write_replay(key, v)
            ok = self._confirm(v)
            if not ok:
                print(f"HARNESS-ERROR: property={self.pid} violation '{key}' did not reproduce on replay ({path})")
                print(v["msg"])
                self._write_evidence(0, 0, harness_error=True)
                return 2
            n_unlisted += nk
            lines.append(f"VIOLATION property={self.pid} replay={path}")
            lines.append(f"  key={key} cases={nk} :: {v['msg'][:400]}")
        for ln in lines:
            print(ln)
        self._write_evidence(n_unlisted, n_known)
        dt = time.time() - self.t0
        print(
            f"[{self.pid}] tier={self.tier} seed={self.seed} evaluations={res.evals} states={res.states} "
            f"transitions={res.trans} distinct_outcomes={len(res.outcomes)} nontrivial={len(res.nontrivial)} "
            f"violations={n_unlisted} known={n_known} exhaustive={self.exhaustive} wall={dt:.1f}s"
        )
        return 1 if n_unlisted else 0

    def _write_replay(self, key, v):
        d = os.path.join(env.VERIF, "replays", self.pid)
        os.makedirs(d, exist_ok=True)
        name = hashlib.blake2b(key.encode(), digest_size=6).hexdigest() + ".json"
        path = os.path.join(d, name)
        with open(path, "w") as f:
            json.dump({"property": self.pid, "key": key, "msg": v["msg"], "case": v["case"], "detail": v["detail"],
                       "replay_cmd": f"./check {self.pid} --replay {path}"}, f, indent=1)
        return path

    def _confirm(self, v):
        global _KINDS
        _KINDS = self.mod.KINDS
        r = _exec_case(v["case"])
        if r.extra.get("harness_errors"):
            print(r.extra.get("harness_error_text"))
        return any(x["key"] == v["key"] for x in r.viol)

    def _write_evidence(self, n_viol, n_known, harness_error=False):
        from . import evidence

        res = self.res
        cov = {
            "evaluations": int(res.evals),
            "distinct_nontrivial": int(len(res.nontrivial)),
            "distinct_outcomes": int(len(res.outcomes)),
            "rule": self.mod.RULE,
            "samples": res.samples[:8] if res.samples else [],
            "states": int(res.states),
            "transitions": int(res.trans),
            "traces_validated_against_impl": int(res.traces),
            "exhaustive": bool(self.exhaustive and not harness_error),
            "bounds": jsonable(self.bounds),
            "caps_hit": self.caps,
            "phases": self.phases,
            "counters": jsonable({k: (sorted(v) if isinstance(v, (set, frozenset)) else v) for k, v in res.extra.items()
                                  if not k.startswith("harness_error")}),
            "known_finding_cases": int(n_known),
        }
        ev = {
            "property_id": self.pid,
            "tier": self.tier,
            "seed": int(self.seed),
            "level": self.mod.LEVEL,
            "coverage": cov,
            "assumptions": list(getattr(self.mod, "ASSUMPTIONS", [])) + self.notes,
            "wall_s": round(time.time() - self.t0, 2),
            "violations": int(n_viol),
        }
        evidence.write(self.pid, ev)


def replay_file(module, path):
    """./check Cxx --replay FILE : rerun one recorded case, print what it does now."""
    global _KINDS
    _KINDS = module.KINDS
    with open(path) as f:
        rec = json.load(f)
    r = _exec_case(rec["case"])
    if r.extra.get("harness_errors"):
        print("HARNESS-ERROR during replay")
        print(r.extra.get("harness_error_text"))
        return 2
    hit = [x for x in r.viol if x["key"] == rec["key"]]
    if hit:
        print(f"VIOLATION property={rec['property']} replay={path}")
        print("  " + hit[0]["msg"])
        return 1
    others = [x for x in r.viol]
    if others:
        print(f"VIOLATION property={rec['property']} replay={path}")
        print("  (different key) " + others[0]["key"] + " :: " + others[0]["msg"])
        return 1
    print(f"replay of {path}: property holds on this case now")
    return 0
