"""Finite enumerators used by the checks (deterministic; VERIF_SEED only rotates equivalent choices)."""
import itertools
import math
import numpy as np


def compositions(total, parts):
    """All tuples of `parts` non-negative ints summing to `total`."""
    if parts == 1:
        yield (total,)
        return
    for first in range(total + 1):
        for rest in compositions(total - first, parts - 1):
            yield (first,) + rest


def label_vectors(k, n):
    return itertools.product(range(k), repeat=n)


def ulp_neighbours(x):
    x = float(x)
    return [float(np.nextafter(x, -np.inf)), x, float(np.nextafter(x, np.inf))]


def covering_array(factors, strength=2, seed=0):
    """Greedy deterministic covering array.  factors: list of (name, [values]).
    Returns list of dict rows covering every `strength`-way value combination."""
    names = [f[0] for f in factors]
    vals = [list(f[1]) for f in factors]
    k = len(factors)
    strength = min(strength, k)
    uncovered = set()
    for cols in itertools.combinations(range(k), strength):
        for combo in itertools.product(*[range(len(vals[c])) for c in cols]):
            uncovered.add((cols, combo))
    rows = []
    rng = np.random.RandomState(1000 + seed)
    while uncovered:
        # seed row from one uncovered tuple, then fill greedily
        best_row, best_gain = None, -1
        cands = sorted(uncovered)[:: max(1, len(uncovered) // 12)][:12]
        for cols, combo in cands:
            row = [None] * k
            for c, v in zip(cols, combo):
                row[c] = v
            order = [c for c in range(k) if row[c] is None]
            rng.shuffle(order)
            for c in order:
                bv, bg = 0, -1
                for v in range(len(vals[c])):
                    row[c] = v
                    g = 0
                    fixed = [cc for cc in range(k) if row[cc] is not None]
                    for cs in itertools.combinations(fixed, strength):
                        if c in cs and (cs, tuple(row[x] for x in cs)) in uncovered:
                            g += 1
                    if g > bg:
                        bv, bg = v, g
                row[c] = bv
            gain = sum(1 for cs in itertools.combinations(range(k), strength)
                       if (cs, tuple(row[x] for x in cs)) in uncovered)
            if gain > best_gain:
                best_row, best_gain = list(row), gain
        for cs in itertools.combinations(range(k), strength):
            uncovered.discard((cs, tuple(best_row[x] for x in cs)))
        rows.append({names[i]: vals[i][best_row[i]] for i in range(k)})
    return rows


def count_covered(rows, factors, strength=2):
    names = [f[0] for f in factors]
    seen = set()
    for r in rows:
        for cols in itertools.combinations(range(len(names)), strength):
            seen.add((cols, tuple(repr(r[names[c]]) for c in cols)))
    total = 0
    for cols in itertools.combinations(range(len(names)), strength):
        total += math.prod(len(factors[c][1]) for c in cols)
    return len(seen), total
