"""Pure, deterministic, instrumented fixture targets (prior transforms and likelihoods).

All functions are module-level (picklable by dill and by real worker pools).
"""
import math

import numpy as np


def pt_affine(u):
    """x = 20u - 10 : non-trivial so x and u cannot be confused."""
    return 20.0 * np.asarray(u) - 10.0


def pt_nonlinear(u):
    u = np.asarray(u)
    return 8.0 * u * u * u + 2.0 * u - 5.0


def pt_identity(u):
    return np.array(u, dtype=float)


def pt_identity_view(u):
    """Legal and common: the unit cube IS the prior; the transform hands back its argument (no copy)."""
    return u


def pt_affine_list(u):
    return (20.0 * np.asarray(u) - 10.0).tolist()


def pt_affine_index(u):
    """Writes the components one by one into a copy of its input (cannot be applied to a batch by accident)."""
    x = np.array(u, dtype=float)
    for i in range(x.shape[0]):
        x[i] = 20.0 * float(u[i]) - 10.0
    return x


def blob_of(x):
    """Injective-in-practice scalar tag of a point (distinct generic x -> distinct tag)."""
    x = np.asarray(x, dtype=float)
    return float(0.731 * x[0] + 1.37 * x[-1] + 0.0137 * np.sum(x * x) + 0.5)


def call_noise(serial):
    """Deterministic 'noise' of the serial-th call of a pseudo-marginal likelihood (so that a record can be tied to the call it came from)."""
    return 1e-3 * ((float(serial) * 0.6180339887498949) % 1.0)


def blob_cast(b, dtype):
    """What a likelihood returning a scalar blob of a narrower numeric type hands back for the tag `b` (None: plain float)."""
    if not dtype:
        return b
    t = np.dtype(dtype)
    return t.type(np.floor(b * 1000.0)) if t.kind in "iu" else t.type(b)


def blob_expected(x, cfg):
    return float(blob_cast(blob_of(x), (cfg or {}).get("blob_dtype")))


def ll_sixblob(x):
    """Six well separated narrow modes on a ring of radius 6 (first two coordinates): the clusterer has to find more than the 2-3 clusters of the small targets."""
    x = np.asarray(x, dtype=float)
    best = -np.inf
    for k in range(6):
        c0, c1 = 6.0 * math.cos(k * math.pi / 3.0), 6.0 * math.sin(k * math.pi / 3.0)
        r2 = (x[0] - c0) ** 2 + (x[-1] - c1) ** 2 if len(x) > 1 else (x[0] - c0) ** 2
        best = max(best, -0.5 * r2 / (0.35 + 0.05 * k) ** 2)
    return float(best)


def ll_plateau(x):
    """Flat-topped: exactly 0.0 inside the disc of radius 5, decaying outside - accepted moves between plateau points tie EXACTLY in logL."""
    x = np.asarray(x, dtype=float)
    r2 = float(np.sum(x * x)) / 25.0
    return 0.0 if r2 <= 1.0 else -3.0 * (r2 - 1.0)


def ll_errsens(x):
    """A likelihood whose value depends on the numpy error state of the CALLER: where exp overflows it returns -inf if the overflow is
    raised (the user asked for that with np.seterr(over='raise')) and a finite value if it is ignored.  The library must evaluate the user's
    function under the user's error state, not under one of its own."""
    x = np.asarray(x, dtype=float)
    try:
        np.exp(np.float64(200.0) * np.float64(x[0]))
    except FloatingPointError:
        return -np.inf
    return -0.125 * float(np.sum(x * x))


def ll_gauss(x):
    x = np.asarray(x, dtype=float)
    return float(-0.5 * np.sum((x - 1.0) ** 2) / 4.0)


def ll_gauss_vec(x):
    x = np.asarray(x, dtype=float)
    return np.array([ll_gauss(xi) for xi in x])


def ll_gauss_blob(x):
    return ll_gauss(x), blob_of(x)


def ll_bimodal(x):
    x = np.asarray(x, dtype=float)
    a = -0.5 * np.sum((x - 4.0) ** 2) / 0.5
    b = -0.5 * np.sum((x + 4.0) ** 2) / 0.5
    return float(np.logaddexp(a, b))


def ll_bimodal_vec(x):
    return np.array([ll_bimodal(xi) for xi in np.asarray(x)])


def ll_bimodal_blob(x):
    return ll_bimodal(x), blob_of(x)


def ll_unequal(x):
    """Two modes of very different height: the lower one dies out as beta grows."""
    x = np.asarray(x, dtype=float)
    a = -0.5 * np.sum((x - 4.0) ** 2) / 0.5
    b = -30.0 - 0.5 * np.sum((x + 4.0) ** 2) / 0.5
    return float(np.logaddexp(a, b))


def ll_hole(x):
    """Gaussian on the half space x0 < 2, zero likelihood elsewhere (a hard constraint)."""
    x = np.asarray(x, dtype=float)
    if x[0] >= 2.0:
        return -np.inf
    return float(-0.5 * np.sum((x - 1.0) ** 2) / 4.0)


def ll_sliver(x):
    """Support on a thin slab of the prior (u0 < 0.1 under the affine prior): whole warm-up batches fall outside it."""
    x = np.asarray(x, dtype=float)
    if x[0] >= -8.0:
        return -np.inf
    return float(-0.5 * np.sum((x + 9.0) ** 2) / 4.0)


def ll_sharp(x):
    """Very narrow Gaussian (1% of the prior width): importance weights of prior-like particles underflow to exactly 0."""
    x = np.asarray(x, dtype=float)
    return float(-0.5 * np.sum((x - 1.0) ** 2) / 0.04)


def ll_corner(x):
    """Mass pressed into the corner u=0 of the cube: proposals leave through the hard walls all the time."""
    x = np.asarray(x, dtype=float)
    return float(-np.sum(x + 10.0) / 0.4)


def ll_weak(x):
    """Nearly flat likelihood: the schedule jumps from beta=0 to 1 in one step."""
    x = np.asarray(x, dtype=float)
    return float(-0.5 * np.sum((x - 1.0) ** 2) / 2500.0)


def ll_param(x, offset=0.0, scale=1.0):
    """A plain module-level likelihood with extra parameters (bound through log_likelihood_args / log_likelihood_kwargs)."""
    return ll_gauss(x) * scale + offset


def ll_flat(x):
    return 0.0


class Shifted:
    """log-likelihood + c (scalar form); picklable."""

    def __init__(self, f, c):
        self.f, self.c = f, c

    def __call__(self, x):
        r = self.f(x)
        if isinstance(r, tuple):
            return (r[0] + self.c,) + tuple(r[1:])
        return r + self.c


class ShiftedVec:
    def __init__(self, f, c):
        self.f, self.c = f, c

    def __call__(self, x):
        return np.array([self.f(xi) + self.c for xi in np.asarray(x)])


class Hole:
    """logL = slope*x0 on {u0 < f} (in x units: x0 < 20f-10), -inf elsewhere (affine prior)."""

    def __init__(self, f, slope=0.0, blobs=False, level=0.0):
        self.f, self.slope, self.blobs, self.level = f, slope, blobs, level

    def __call__(self, x):
        x = np.asarray(x, dtype=float)
        inside = x[0] < 20.0 * self.f - 10.0
        v = float(self.level + self.slope * x[0]) if inside else -np.inf
        if self.blobs:
            return v, blob_of(x)
        return v


class Counting:
    """Counts the points at which the wrapped scalar likelihood was actually evaluated."""

    def __init__(self, f):
        self.f = f
        self.n = 0
        self.batches = []

    def __call__(self, x):
        self.n += 1
        return self.f(x)


class CountingVec:
    def __init__(self, f):
        self.f = f
        self.n = 0

    def __call__(self, x):
        x = np.asarray(x)
        self.n += len(x)
        return np.array([self.f(xi) for xi in x])
