"""OwnedRandom: the process-wide numpy random stream, owned by the harness.

tempest draws randomness only through module-level ``np.random.<fn>`` calls (attribute lookup at
call time), so replacing those attributes owns every random choice without touching the source.

Modes (combinable):
  * stream   - every function delegates to a private RandomState(seed): deterministic, isolated.
  * scripted - ``handlers[name](tape, *args, **kw)`` decides the answer (a choice point of the
               explorer); a handler may return ``tape.PASS`` to fall through to the stream.
  * audit    - every call is logged as (name, caller-file:line, brief args).
"""
import sys
import numpy as np

_NAMES = ["rand", "random", "random_sample", "randn", "gamma", "choice", "normal", "uniform",
          "standard_normal", "seed", "get_state", "set_state", "randint", "permutation", "shuffle",
          "exponential", "standard_t", "multivariate_normal", "standard_gamma", "chisquare", "beta",
          "multinomial", "sample", "ranf", "bytes", "integers"]


class _Pass:
    pass


class _Stream:
    """The tape's stream.  Outside the `with` block it is a private RandomState; inside, it IS numpy's process-wide RandomState object
    (np.random.mtrand._rand) loaded with the private state: code that reaches the global generator without going through the np.random.<fn>
    attributes (e.g. keeps a reference to it, as scikit-learn's check_random_state does) still draws from the owned stream, and a by-value copy
    of the generator (deep copy / pickle of an object holding it) becomes visible as a stream that no longer follows the tape's re-seeding."""

    def __init__(self, seed):
        object.__setattr__(self, "_private", np.random.RandomState(seed))
        object.__setattr__(self, "_live", None)

    def __getattr__(self, name):
        return getattr(self._live if self._live is not None else self._private, name)


class OwnedRandom:
    PASS = _Pass()

    def __init__(self, seed=0, handlers=None, audit=False, lib_only_audit=True):
        self.rs = _Stream(seed)
        self.handlers = dict(handlers or {})
        self.audit = audit
        self.log = []
        self.seed_calls = []
        self.ncalls = 0
        self._saved = {}
        self.lib_only_audit = lib_only_audit
        self.foreign = []  # generators created outside the owned stream: (caller, args)

    # -- context manager ---------------------------------------------------------------------
    def __enter__(self):
        g = np.random.mtrand._rand
        self._outer_state = g.get_state()
        g.set_state(self.rs._private.get_state())
        object.__setattr__(self.rs, "_live", g)
        self._saved["default_rng"] = np.random.default_rng
        tape = self

        def default_rng(*a, **k):
            f = sys._getframe(1)
            tape.foreign.append((f"{f.f_code.co_filename}:{f.f_lineno}", a, k))
            seed = a[0] if a else k.get("seed")
            if seed is None:  # unseeded: OS entropy in real life; a fixed stream here so the rest of the execution stays deterministic
                return np.random.Generator(np.random.PCG64(12345))
            return tape._saved["default_rng"](*a, **k)  # seeded / pass-through forms (Generator, SeedSequence, ...) keep numpy semantics

        np.random.default_rng = default_rng
        for n in _NAMES:
            if hasattr(np.random, n):
                self._saved[n] = getattr(np.random, n)
                setattr(np.random, n, self._make(n))
        return self

    def __exit__(self, *exc):
        for n, f in self._saved.items():
            setattr(np.random, n, f)
        self._saved = {}
        g = np.random.mtrand._rand
        self.rs._private.set_state(g.get_state())  # the tape keeps its position for a later re-entry
        object.__setattr__(self.rs, "_live", None)
        g.set_state(self._outer_state)             # the surrounding stream (real or an outer tape) continues where it was
        return False

    # -- dispatch ----------------------------------------------------------------------------
    def _caller(self):
        f = sys._getframe(2)
        return f"{f.f_code.co_filename}:{f.f_lineno}"

    def _make(self, name):
        tape = self

        def fn(*args, **kw):
            tape.ncalls += 1
            where = None
            if tape.audit or name == "seed":
                where = tape._caller()
            if tape.audit:
                tape.log.append((name, where))
            if name == "seed":
                tape.seed_calls.append((where, args[0] if args else kw.get("seed")))
            h = tape.handlers.get(name)
            if h is not None:
                r = h(tape, *args, **kw)
                if r is not OwnedRandom.PASS:
                    return r
            target = getattr(tape.rs, name, None)
            if target is None:  # e.g. np.random.integers does not exist on RandomState
                raise AttributeError(name)
            return target(*args, **kw)

        fn.__name__ = name
        return fn

    def position(self):
        """A fingerprint of the private stream position (used by reproducibility checks)."""
        st = self.rs.get_state()
        return (int(st[2]), int(st[1][:4].sum()), int(st[1][-4:].sum()))
