"""SamplerProbe: drives the REAL tempest.Sampler under an owned environment and emits a
step-boundary event stream (reweight, train, resample, mutate, commit) to monitors.

Observation is done from outside by class-level attribute replacement inside a context manager
(restored on exit), so no source hook is needed and nothing leaks into pickled samplers.
"""
import copy
import os
import hashlib
import contextlib

import numpy as np

from . import env
from .tape import OwnedRandom
from . import targets

DEFAULT_CFG = dict(
    d=2, n_particles=24, n_total=96, sample="tpcn", resample="mult", clustering=False, normalize=True,
    cluster_every=1, n_max_clusters=None, split_threshold=1.0, vv=None, ess_ratio=2.0, eval="scalar",
    boundary="none", target="gauss", prior="affine", n_steps=None, n_max_steps=None, random_state=None,
    save_every=None, shift=0.0,
)

TARGETS = {"sixblob": targets.ll_sixblob, "plateau": targets.ll_plateau, "errsens": targets.ll_errsens, "gauss": targets.ll_gauss, "bimodal": targets.ll_bimodal, "flat": targets.ll_flat, "unequal": targets.ll_unequal, "corner": targets.ll_corner, "hole": targets.ll_hole, "sharp": targets.ll_sharp, "sliver": targets.ll_sliver, "weak": targets.ll_weak}
def _pt_affine32(u):
    return (20.0 * np.asarray(u) - 10.0).astype(np.float32)


PRIORS = {"identity-view": targets.pt_identity_view, "affine-list": targets.pt_affine_list, "affine-index": targets.pt_affine_index, "affine32": _pt_affine32, "affine": targets.pt_affine, "nonlinear": targets.pt_nonlinear, "identity": targets.pt_identity}
BOUNDARY = {"dup0": ([0, 0], None), "dup1ref": (None, [1, 1]), "empty": ([], []), "tuples": ((0,), (1,)), "sets": ({0}, frozenset({1})), "none": (None, None), "per0": ([0], None), "ref1": (None, [1]), "per0ref1": ([0], [1]), "ref0": (None, [0]), "per1": ([1], None)}


class LL:
    """Instrumented likelihood: counts the points at which the user's function is evaluated."""

    def __init__(self, f, mode, shift=0.0):
        self.f, self.mode, self.shift = f, mode, shift
        self.dtype = "float64"
        self.blob_dtype = None
        self.blob_form = None   # None: (logl, tag) | "two": (logl, tag, 2 tag) | "vector": (logl, array([tag, 2 tag, 3 tag])) | "str": (logl, repr(tag))
        self.ret = None         # how the log-likelihood value itself is spelled: None (Python float) | "np.float64" | "0d" | "list" / "readonly" (vectorised)
        self.count_path = None  # a file that receives one byte per evaluation (O_APPEND): counts evaluations made in OTHER processes (pool workers) too
        self.noisy = False      # pseudo-marginal style: every call returns logL + a call-specific perturbation and the call's serial number as blob
        self.serial = 0
        self.uses_rng = False   # the user's likelihood itself draws from numpy's global generator (legal; the seeded run must stay reproducible)
        self.fail_countdown = None  # k: the k-th evaluation from now raises UserFailure once (a transient failure of the user's code)
        self.n = 0
        self.order = []

    def __call__(self, x, offset=0.0, scale=1.0):
        # `offset` / `scale` are what log_likelihood_args / log_likelihood_kwargs bind (defaults are the identity)
        if self.fail_countdown is not None:
            self.fail_countdown -= 1
            if self.fail_countdown <= 0:
                self.fail_countdown = None
                if getattr(self, "fail_kind", "exc") == "kbd":
                    raise UserInterrupt("Ctrl-C injected while the user's likelihood runs")
                raise UserFailure("transient failure injected into the user's likelihood")
        if self.count_path is not None:
            fd = os.open(self.count_path, os.O_WRONLY | os.O_APPEND | os.O_CREAT)
            try:
                os.write(fd, b"." if self.mode != "vec" else b"." * len(x))
            finally:
                os.close(fd)
        if self.uses_rng:
            np.random.random()
        if self.mode == "vec":
            x = np.asarray(x)
            self.n += len(x)
            out = np.array([self.f(xi) * scale + offset + self.shift for xi in x], dtype=self.dtype)
            if self.ret == "readonly":
                out.setflags(write=False)
            return out
        self.n += 1
        v = self.f(x) * scale + offset + self.shift
        if self.ret == "np.float64":
            v = np.float64(v)
        elif self.ret == "0d":
            v = np.array(v)
        if self.noisy and self.mode == "blobs":
            self.serial += 1
            return v + targets.call_noise(self.serial), float(self.serial)
        if self.mode == "blobs":
            b = targets.blob_cast(targets.blob_of(x), self.blob_dtype)
            if self.blob_form == "two":
                return v, b, 2 * b
            if self.blob_form == "vector":
                return v, np.array([b, 2 * b, 3 * b])
            if self.blob_form == "matrix":  # one matrix per particle (a blob array of three dimensions)
                return v, np.array([[b, 2 * b], [3 * b, 4 * b]])
            if self.blob_form == "str":
                return v, repr(float(b))
            if self.blob_form == "nan":  # a derived quantity that is undefined (NaN) in part of the space
                return v, (float("nan") if float(np.asarray(x).reshape(-1)[0]) <= 0.0 else b)
            return v, b
        return v


class OrderedPool:
    """Pool-like object honouring the map contract; evaluates in a given permutation order."""

    def __init__(self, perm_for_call=None):
        self.perm_for_call = perm_for_call or {}
        self.calls = 0
        self.batch_sizes = []

    def map(self, f, xs):
        xs = list(xs)
        self.calls += 1
        self.batch_sizes.append(len(xs))
        perm = self.perm_for_call.get(self.calls)
        order = list(range(len(xs)))
        if perm is not None:
            order = [order[i % len(xs)] for i in perm][: len(xs)] if len(perm) >= len(xs) else order
            if sorted(order) != list(range(len(xs))):
                order = list(range(len(xs)))[::-1]
        out = [None] * len(xs)
        for i in order:
            out[i] = f(xs[i])
        return out


class LazyPool(OrderedPool):
    def map(self, f, xs):
        return iter(super().map(f, xs))


class _Model:
    """A user object whose bound method is handed to the sampler; nobody else keeps a reference to the object."""

    def __init__(self, f):
        self.inner = f

    def log_likelihood(self, x, *a, **k):
        return self.inner(x, *a, **k)

    def prior_transform(self, u):
        return self.inner(u)


def _as_callable(f, form, method):
    import functools
    if form in (None, "plain"):
        return f
    if form == "bound-temp":
        return getattr(_Model(f), method)
    if form == "partial":
        return functools.partial(f)
    raise KeyError(form)


# scopes beyond the small ones the exhaustive phases use: many particles, higher dimension, long runs (>150 iterations), many clusters
LARGE = [
    dict(n_particles=256, d=8, n_total=1024, eval="scalar", clustering=True, target="bimodal", sample="tpcn"),
    dict(n_particles=512, d=10, n_total=2048, eval="vec", clustering=True, target="gauss", sample="rwm", resample="syst"),
    dict(n_particles=16, d=2, n_total=16 * 160, eval="blobs", clustering=False, target="sharp", ess_ratio=1.0, max_iters=600),
    dict(n_particles=128, d=6, n_total=640, eval="poolobj", clustering=True, target="unequal", vv=0.5, cluster_every=3),
    dict(n_particles=1024, d=3, n_total=4096, eval="vec", clustering=True, target="bimodal", resample="syst", n_max_clusters=None),
    dict(n_particles=24, d=2, n_total=24 * 110, eval="scalar", clustering=True, target="bimodal", cluster_every=2, ess_ratio=1.0, max_iters=600, sample="rwm"),
    dict(n_particles=1500, d=12, n_total=3000, eval="vec", clustering=True, target="gauss"),  # batches of 18000 values, not a multiple of any power-of-two block
]


SPELL = {"int": int, "float": float, "np.int64": np.int64, "np.int32": np.int32, "np.uint8": np.uint8, "np.float64": np.float64, "np.float32": np.float32,
         "np.bool_": np.bool_, "0-d int array": lambda v: np.array(int(v)), "0-d float array": lambda v: np.array(float(v)), "bool-as-int": int}


def make_sampler(cfg, pool=None):
    from tempest import Sampler

    c = dict(DEFAULT_CFG)
    c.update(cfg)
    f = TARGETS[c["target"]]
    ev = c["eval"]
    mode = {"vec": "vec", "scalar": "scalar", "blobs": "blobs", "poolobj": "scalar", "poolobj_blobs": "blobs", "poolint": "scalar"}[ev]
    ll = LL(f, mode, c["shift"])
    ll.dtype = c.get("ll_dtype", "float64")
    ll.blob_dtype = c.get("blob_dtype")
    ll.blob_form = c.get("blob_form")
    ll.ret = c.get("ll_return")
    ll.uses_rng = bool(c.get("ll_rng"))
    ll.noisy = bool(c.get("ll_noisy"))
    ll.count_path = c.get("count_path")
    per, ref = BOUNDARY[c["boundary"]]
    kw = dict(
        prior_transform=_as_callable(PRIORS[c["prior"]], c.get("callable"), "prior_transform"), log_likelihood=_as_callable(ll, c.get("callable"), "log_likelihood"), n_dim=c["d"], n_particles=c["n_particles"], ess_ratio=c["ess_ratio"],
        volume_variation=c["vv"], vectorize=(mode == "vec"), blobs_dtype=("O" if c.get("blob_form") == "str" else (c.get("blob_dtype") or "float64")) if mode == "blobs" else None,
        periodic=per, reflective=ref, clustering=c["clustering"], normalize=c["normalize"], cluster_every=c["cluster_every"],
        split_threshold=c["split_threshold"], n_max_clusters=c["n_max_clusters"], sample=c["sample"], n_steps=c["n_steps"],
        n_max_steps=c["n_max_steps"], resample=c["resample"], random_state=c["random_state"],
        log_likelihood_args=c.get("ll_args"), log_likelihood_kwargs=c.get("ll_kwargs"),
    )
    if ev in ("poolobj", "poolobj_blobs"):
        kw["pool"] = pool if pool is not None else OrderedPool()
    elif ev == "poolint":
        kw["pool"] = c.get("pool_n", 2)
    for k in ("output_dir", "output_label"):
        if k in c:
            kw[k] = c[k]
    for k, sp in (c.get("spell") or {}).items():  # the same option VALUE spelled as another scalar type
        if k in kw and kw[k] is not None:
            kw[k] = SPELL[sp](kw[k])
    s = Sampler(**kw)
    return s, ll, c


# ---------------------------------------------------------------------------------------------
def snap(state):
    """Deep snapshot of a StateManager's current/history."""
    cur = {k: (v.copy() if isinstance(v, np.ndarray) else copy.deepcopy(v)) for k, v in state._current.items()}
    hist = {k: [(x.copy() if isinstance(x, np.ndarray) else copy.deepcopy(x)) for x in v] for k, v in state._history.items()}
    return {"current": cur, "history": hist}


def _feed(h, v):
    if isinstance(v, np.ndarray):
        h.update(str(v.dtype).encode() + str(v.shape).encode() + np.ascontiguousarray(v).tobytes())
    elif isinstance(v, (list, tuple)):
        h.update(b"[%d" % len(v))
        for x in v:
            _feed(h, x)
    elif isinstance(v, dict):
        for k in sorted(v):
            h.update(str(k).encode())
            _feed(h, v[k])
    elif isinstance(v, (float, np.floating)):
        h.update(np.float64(v).tobytes())
    else:
        h.update(repr(v).encode())


def digest(obj):
    h = hashlib.blake2b(digest_size=12)
    _feed(h, obj)
    return h.hexdigest()


def iter_seed(base, it, sym):
    return int.from_bytes(hashlib.blake2b(f"{base}/{it}/{sym}".encode(), digest_size=4).digest(), "big")


class Event:
    __slots__ = ("step", "probe", "iter", "info")

    def __init__(self, step, probe, it, info):
        self.step, self.probe, self.iter, self.info = step, probe, it, info


_ACTIVE = None
_REG = {}        # id(StateManager) -> Probe : several samplers alive and instrumented at the same time (duo sessions)
_IN_MUTATE = None


def _probe_for(state):
    p = _ACTIVE
    if p is not None and state is p.sampler.state:
        return p
    q = _REG.get(id(state))
    return q if (q is not None and q.sampler.state is state) else None


@contextlib.contextmanager
def instrumented():
    """Class-level wrappers that forward to the active probe (if any)."""
    import tempest.steps.reweight as rw
    import tempest.steps.train as tr
    import tempest.steps.resample as rs
    import tempest.steps.mutate as mu
    import tempest.state_manager as sm

    saved = (rw.Reweighter.run, tr.Trainer.run, rs.Resampler.run, mu.Mutator.run, sm.StateManager.commit_current_to_history, mu.parallel_mcmc)
    o_rw, o_tr, o_rs, o_mu, o_cm, o_pm = saved

    def w_rw(self):
        p = _probe_for(self.state)
        if p is not None:
            p._begin_iter()
            w = o_rw(self)
            p._emit("reweight", weights=w)
            return w
        return o_rw(self)

    def w_tr(self, weights):
        p = _probe_for(self.state)
        if p is not None:
            win = np.array(weights, copy=True)
            ms = o_tr(self, weights)
            p._emit("train", weights_in=win, mode_stats=ms)
            return ms
        return o_tr(self, weights)

    def w_rs(self, weights):
        p = _probe_for(self.state)
        if p is not None:
            win = np.array(weights, copy=True)
            r = o_rs(self, weights)
            p._emit("resample", weights_in=win)
            return r
        return o_rs(self, weights)

    def w_mu(self, mode_stats):
        global _IN_MUTATE
        p = _probe_for(self.state)
        if p is not None:
            p.kernel_calls = []
            prev_m = _IN_MUTATE
            _IN_MUTATE = p
            try:
                r = o_mu(self, mode_stats)
            finally:
                _IN_MUTATE = prev_m
            p._emit("mutate", mode_stats=mode_stats, kernel_calls=p.kernel_calls)
            return r
        return o_mu(self, mode_stats)

    def w_cm(self, *a, **k):
        p = _probe_for(self)
        if p is not None and p.in_iter:
            r = o_cm(self, *a, **k)
            p._emit("commit")
            p.in_iter = False
            return r
        return o_cm(self, *a, **k)

    def w_pm(*a, **k):
        p = _IN_MUTATE if _IN_MUTATE is not None else _ACTIVE
        if p is not None:
            rec = {kk: (vv.copy() if isinstance(vv, np.ndarray) else vv) for kk, vv in k.items()}
            out = o_pm(*a, **k)
            rec["_out"] = out
            p.kernel_calls.append(rec)
            return out
        return o_pm(*a, **k)

    rw.Reweighter.run, tr.Trainer.run, rs.Resampler.run, mu.Mutator.run = w_rw, w_tr, w_rs, w_mu
    sm.StateManager.commit_current_to_history = w_cm
    mu.parallel_mcmc = w_pm
    try:
        yield
    finally:
        rw.Reweighter.run, tr.Trainer.run, rs.Resampler.run, mu.Mutator.run, sm.StateManager.commit_current_to_history, mu.parallel_mcmc = saved


class Probe:
    """One controlled execution of the real sampler."""

    def __init__(self, cfg, symbols=None, base=0, monitors=(), pool=None, max_iters=60, fs=None, iter_offset=0):
        self.cfg_in = dict(cfg)
        self.symbols = {int(k): v for k, v in (symbols or {}).items()}
        self.base = base
        self.monitors = list(monitors)
        self.sampler, self.ll, self.cfg = make_sampler(cfg, pool=pool)
        self.state = self.sampler.state
        self.viol = []
        self.events = 0
        self.iters = iter_offset
        self.iter_offset = iter_offset
        self.in_iter = False
        self.kernel_calls = []
        self.max_iters = cfg.get("max_iters", max_iters)
        self.tape = OwnedRandom(iter_seed(base, 0, "init"))
        self.exc = None
        self.completed = False
        self.retries = 0
        self.trace = []
        self.fs = fs

    # -- called by the wrappers --
    def _begin_iter(self):
        self.iters += 1
        self.in_iter = True
        if self.iters - self.iter_offset > self.max_iters:
            raise Horizon(f"more than {self.max_iters} iterations")
        sym = self.symbols.get(self.iters, "a")
        self.tape.rs.seed(iter_seed(self.base, self.iters, sym))

    def _emit(self, step, **info):
        if getattr(self, "mute", False):
            return
        self.events += 1
        ev = Event(step, self, self.iters, info)
        for m in self.monitors:
            m(ev)

    def violate(self, key, msg, **detail):
        self.viol.append((key, msg, detail))

    # -- driving --
    @contextlib.contextmanager
    def _env(self):
        """cfg['env']: process-wide settings a user may legitimately have in force while the sampler runs."""
        import warnings
        e = self.cfg.get("env")
        with contextlib.ExitStack() as st:
            if e == "errstate-raise":
                st.enter_context(np.errstate(all="raise"))
            elif e == "warnings-error":
                st.enter_context(warnings.catch_warnings())
                warnings.simplefilter("error")
            elif e == "over-raise":
                st.enter_context(np.errstate(over="raise"))
            elif e == "printoptions":
                st.enter_context(np.printoptions(precision=1, threshold=3, suppress=True))
            yield

    @contextlib.contextmanager
    def _stderr(self):
        """cfg['stderr']=='encodedfile': an un-picklable text stream (what pytest / notebook front-ends install)."""
        import sys, io
        if self.cfg.get("stderr") != "encodedfile":
            yield
            return

        class EncodedFile(io.TextIOWrapper):
            pass

        old = sys.stderr
        sys.stderr = EncodedFile(io.BytesIO(), encoding="utf-8")
        try:
            yield
        finally:
            sys.stderr = old

    def _mount(self):
        if self.fs is None:
            return contextlib.nullcontext()
        from .refmodels import fs as _fs

        return _fs.mounted(self.fs)

    def run(self, **kw):
        global _ACTIVE
        prev = _ACTIVE
        _ACTIVE = self
        try:
            with env.quiet(), self._stderr(), instrumented(), self.tape, self._mount(), self._env():
                args = dict(n_total=self.cfg["n_total"], progress=bool(self.cfg.get("progress", False)))
                if self.cfg.get("save_every") is not None:
                    args["save_every"] = self.cfg["save_every"]
                args.update(kw)
                for k, sp in (self.cfg.get("spell") or {}).items():
                    if k in args and args[k] is not None:
                        args[k] = SPELL[sp](args[k])
                self.sampler.run(**args)
            self.completed = True
        except Horizon as e:
            self.exc = e
        except Exception as e:  # attributed by the calling check (C18 owns "valid configurations always run")
            self.exc = e
        finally:
            _ACTIVE = prev
        return self

    def steps(self, n, retry_on=None):
        """Drive n iterations through the public Sampler.sample() (fresh start).  With retry_on=<exception type>, an iteration that
        raises it (a failure injected into the user's likelihood) is attempted again on the same object, as a user would."""
        global _ACTIVE
        prev = _ACTIVE
        _ACTIVE = self
        try:
            with env.quiet(), instrumented(), self.tape, self._mount():
                if self.state.get_current("iter") is None:
                    self.sampler._core._initialize_fresh()
                for _ in range(n):
                    while True:
                        try:
                            with self._env():
                                self.sampler.sample()
                            break
                        except BaseException as e:
                            if retry_on is None or not isinstance(e, retry_on) or self.retries >= 8:
                                raise
                            self.retries += 1
                            self.in_iter = False
            self.completed = True
        except BaseException as e:
            if isinstance(e, KeyboardInterrupt) and not isinstance(e, UserInterrupt):
                raise
            self.exc = e
        finally:
            _ACTIVE = prev
        return self


class Horizon(Exception):
    pass


class UserFailure(RuntimeError):
    """Raised by a fixture likelihood at a chosen call (a transient failure of the user's code)."""


class UserInterrupt(KeyboardInterrupt):
    """Ctrl-C while the user's likelihood runs (NOT an Exception subclass); the user catches it and carries on with the same sampler."""


def deviation_tree(run_fn, alphabet=("a", "b"), max_dev=1, max_runs=None):
    """Iterative deviation bounding over per-iteration tape symbols.

    run_fn(symbols: dict iter->symbol) -> number of iterations T of that run.
    Explores everything with 0 deviations, then 1, ... up to max_dev; returns (#runs, capped?)."""
    frontier = [dict()]
    n = 0
    for dev in range(max_dev + 1):
        nxt = []
        for sym in frontier:
            if max_runs is not None and n >= max_runs:
                return n, True
            T = run_fn(sym)
            n += 1
            if dev < max_dev:
                last = max(sym.keys(), default=0)
                for t in range(last + 1, T + 1):
                    for a in alphabet[1:]:
                        d = dict(sym)
                        d[t] = a
                        nxt.append(d)
        frontier = nxt
    return n, False
