"""Value-identical re-presentations of an array argument ("input forms") and a call-history oracle.

A unit function that is correct on contiguous float64 input must give the same answer when the SAME numbers arrive as
another legal container / dtype / memory layout, and when the same call is repeated after calls with other arguments
(no state carried between calls).  Both are enumerated exhaustively over small lattices by the checks that use this
module; which forms are legal for which argument is stated by each check (the documented argument types).
"""
import numpy as np

ALL = ("f64", "list", "tuple", "strided", "revstrided", "fortran", "readonly", "f32", "i64", "i32", "longdouble", "f16")


def _totuple(x):
    return tuple(_totuple(v) for v in x) if isinstance(x, list) else x


def form(a, kind):
    """Return the re-presentation `kind` of float64 array `a`, or None if the values cannot be carried exactly."""
    a = np.array(a, dtype=float)
    if kind == "f64":
        return a.copy()
    if kind == "list":
        return a.tolist()
    if kind == "tuple":
        return _totuple(a.tolist())
    if kind == "strided":  # every second element of a larger buffer (non-contiguous in every axis)
        buf = np.full(tuple(2 * s for s in a.shape), np.nan)
        v = buf[tuple(slice(None, None, 2) for _ in a.shape)]
        v[...] = a
        return v
    if kind == "revstrided":  # negative stride along the first axis
        if a.ndim == 0:
            return None
        buf = a[::-1].copy()
        return buf[::-1]
    if kind == "fortran":
        return np.asfortranarray(a) if a.ndim == 2 and min(a.shape) > 1 else None
    if kind == "readonly":
        b = a.copy()
        b.setflags(write=False)
        return b
    if kind in ("f32", "f16"):
        t = np.float32 if kind == "f32" else np.float16
        with np.errstate(all="ignore"):
            b = a.astype(t)
        return b if np.array_equal(b.astype(float), a) else None
    if kind in ("i64", "i32"):
        t = np.int64 if kind == "i64" else np.int32
        if not np.all(np.isfinite(a)) or not np.all(a == np.round(a)) or np.any(np.abs(a) >= 2.0 ** 31):
            return None
        return a.astype(t)
    if kind == "longdouble":
        return a.astype(np.longdouble)
    raise KeyError(kind)


def forms(a, kinds):
    for k in kinds:
        v = form(a, k)
        if v is not None:
            yield k, v


def scalar_forms(n):
    """Legal spellings of an integer option."""
    return [("int", int(n)), ("np.int64", np.int64(n)), ("np.int32", np.int32(n)), ("np.intp", np.intp(n)), ("np.uint8", np.uint8(n))] if 0 <= n < 256 else \
        [("int", int(n)), ("np.int64", np.int64(n)), ("np.int32", np.int32(n))]


ERRSTATES = ({"all": "warn"}, {"all": "raise"}, {"under": "raise"}, {"over": "raise", "invalid": "raise", "divide": "raise"})


def under_errstates(f, states=ERRSTATES):
    """Evaluate f() under process-wide numpy error states a caller may legitimately have in force.  Yields (name, outcome) with outcome =
    ("value", v) or ("raised", exception) - FloatingPointError / RuntimeWarning are an acceptable way to REPORT a floating-point event;
    a value that differs from the value under the default state is not."""
    import warnings
    for st in states:
        name = ",".join(f"{k}={v}" for k, v in st.items())
        with np.errstate(**st), warnings.catch_warnings():
            warnings.simplefilter("ignore")
            try:
                yield name, ("value", f())
            except (FloatingPointError, RuntimeWarning) as e:
                yield name, ("raised", e)


def same(a, b, rtol=0.0, atol=0.0):
    a, b = np.asarray(a, dtype=float), np.asarray(b, dtype=float)
    if a.shape != b.shape:
        return False
    with np.errstate(all="ignore"):
        fin = np.isfinite(a) & np.isfinite(b)
        return bool(np.all((a == b) | (np.isnan(a) & np.isnan(b)) | (fin & (np.abs(a - b) <= atol + rtol * np.maximum(np.abs(a), np.abs(b))))))
