"""Known findings: read-only view of /verif/known_findings.json (never written at run time).

Entry forms
  {"status": "finding", "property": "C03", "match": "<fnmatch pattern on violation key>", "what": "..."}
  {"status": "fixed",   "property": "C08", "commit": "<sha>", "what": "..."}    # suppresses nothing
"""
import os
import json
import fnmatch

from . import env

PATH = os.path.join(env.VERIF, "known_findings.json")


def load(pid):
    if not os.path.exists(PATH):
        return []
    with open(PATH) as f:
        data = json.load(f)
    return [e for e in data.get("entries", []) if e.get("status") == "finding" and e.get("property") == pid]


def match(known, key):
    for e in known:
        if fnmatch.fnmatchcase(key, e["match"]):
            return e
    return None
