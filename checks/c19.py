"""C19 - Student-t proposal fit is well-posed and equivariant.

Deterministic data lattice (quasi-random quantile constructions of Gaussian, Student-t, skewed
and contaminated laws, several correlations, d = 1..8, n = 4d..2000) x group lattice
(per-coordinate scalings 1e-6..1e6, translations, all coordinate permutations for d<=3):
well-posedness of the fit, equivariance relations, recovery on large t-grids, and the
degrees-of-freedom fallback on the way to the kernel.
"""
import itertools
import math

import numpy as np
from scipy import stats

from mc import env
from mc.core import Res
from mc.tape import OwnedRandom

LEVEL = "exploration"
RULE = ("data sets = (dimension, size, law, correlation) full product of the stated lattice, built deterministically from Halton points; "
        "transformations = per-coordinate scalings in {1e-6,1e-3,1,1e3,1e6}^d (all for d<=2; uniform + axis-wise above), translations {0,+-1,+-1e3}, "
        "all d! coordinate permutations (d<=3) / all transpositions (d>3); distinct = (data set, transformation); non-trivial = non-identity transformation "
        "of a data set whose fitted nu is finite, or a recovery/fallback case.")
ASSUMPTIONS = ["equivariance tolerance 1e-4 relative (the EM stopping rule |delta nu|<=1e-6 may add one iteration on one side)",
               "'t-distributed sample' = deterministic quasi-random quantile grid of that law"]

PRIMES = [2, 3, 5, 7, 11, 13, 17, 19, 23, 29]


def halton(n, k):
    out = np.empty((n, k))
    for j in range(k):
        b = PRIMES[j]
        for i in range(n):
            x, f, m = 0.0, 1.0 / b, i + 1
            while m:
                x += f * (m % b)
                m //= b
                f /= b
            out[i, j] = x
    return out


def make_data(d, n, law, rho):
    U = halton(n, d + 1)
    U = 0.5 / n + (1 - 1.0 / n) * U  # away from 0/1
    Z = stats.norm.ppf(U[:, :d])
    if law == "gauss":
        X = Z
    elif law.startswith("t"):
        nu = float(law[1:])
        g = stats.chi2.ppf(U[:, d], nu) / nu
        X = Z / np.sqrt(g)[:, None]
    elif law == "skew":
        X = np.exp(0.6 * Z) - 1.0
    elif law == "contam5":
        X = Z.copy()
        k = max(1, n // 20)
        X[:k] = X[:k] * 10.0
    elif law == "q0":  # first coordinate takes two exact values only (many exact ties in one coordinate; the cloud is still full-dimensional)
        X = Z.copy()
        X[:, 0] = np.where(Z[:, 0] >= 0, 1.0, -1.0) if d > 1 else Z[:, 0]
    elif law == "walls":  # a third of the points sit exactly on the walls 0.0 / 1.0 of the first coordinate
        X = Z.copy()
        if d > 1:
            X[::3, 0] = np.where(Z[::3, 0] >= 0, 1.0, 0.0)
    elif law == "contam1":
        X = Z.copy()
        X[0] = 1e6
    else:
        raise ValueError(law)
    if d > 1 and rho != 0.0:
        C = np.full((d, d), rho if rho > 0 else 0.0)
        if rho < 0:
            C = np.zeros((d, d))
            C[0, 1] = C[1, 0] = rho
        np.fill_diagonal(C, 1.0)
        L = np.linalg.cholesky(C)
        X = X @ L.T
    perm = np.argsort(halton(n, 1)[:, 0] * 0.7548776662 % 1.0, kind="stable")
    return X[perm]


def fit(X):
    from tempest.student import fit_mvstud

    with np.errstate(all="ignore"):
        try:
            return fit_mvstud(X.copy())
        except Exception as e:  # reported by well_posed() as a violation of 'the fit returns ...'
            return e


def well_posed(res, key, X, out, cc):
    if isinstance(out, Exception):
        res.violate(f"{key}:raises:{type(out).__name__}", f"fit_mvstud raised {out!r} on non-degenerate data (shape {X.shape})", cc)
        return False
    mu, S, nu = out
    d = X.shape[1]
    mu = np.asarray(mu, dtype=float)
    S = np.asarray(S, dtype=float).reshape(d, d)
    ok = True
    lo, hi = X.min(0), X.max(0)
    span = np.maximum(hi - lo, 1e-300)
    if mu.shape != (d,) or not np.all(np.isfinite(mu)) or np.any(mu < lo - 1e-9 * span) or np.any(mu > hi + 1e-9 * span):
        res.violate(f"{key}:location", f"location {mu.tolist()} not finite / outside the data bounding box [{lo.tolist()}, {hi.tolist()}]", cc)
        ok = False
    if not np.all(np.isfinite(S)) or np.max(np.abs(S - S.T)) > 1e-10 * np.max(np.abs(S)):
        res.violate(f"{key}:scale-symmetric", f"scale matrix not finite/symmetric (asym {np.max(np.abs(S - S.T))!r})", cc)
        ok = False
    else:
        try:
            np.linalg.cholesky((S + S.T) / 2)
            if np.linalg.eigvalsh((S + S.T) / 2).min() <= 0:
                raise np.linalg.LinAlgError("non-positive eigenvalue")
        except np.linalg.LinAlgError:
            res.violate(f"{key}:scale-pd", f"scale matrix is not positive definite: {S.tolist()}", cc)
            ok = False
    if isinstance(nu, complex) or nu != nu or not (nu > 0):
        res.violate(f"{key}:dof", f"degrees of freedom {nu!r} not in (0, inf]", cc)
        ok = False
    return ok


def transforms(d, thorough, few=False):
    S = [1e-6, 1e-3, 1.0, 1e3, 1e6]
    out = []
    if few:  # large data sets: a common rescaling with a far translation, one unequal rescaling, one permutation
        return [(np.full(d, 1e-3), 1e3, None), (np.full(d, 1e3), -1e6, None), (np.array([1e-3] + [1e2] * (d - 1)), 1.0, None), (np.ones(d), 0.0, list(range(1, d)) + [0])]
    if d <= 2:
        for s in itertools.product(S, repeat=d):
            for t in (0.0, 1e3):
                out.append((np.array(s), t, None))
    else:
        for a in S:
            out.append((np.full(d, a), 0.0, None))
        for j in range(d):
            for a in (1e-6, 1e6):
                s = np.ones(d)
                s[j] = a
                out.append((s, 1.0, None))
    for t in (1.0, -1.0, -1e3):
        out.append((np.ones(d), t, None))
    if d <= 3:
        for p in itertools.permutations(range(d)):
            if list(p) != list(range(d)):
                out.append((np.ones(d), 0.0, list(p)))
    else:
        for i, j in itertools.combinations(range(d), 2):
            p = list(range(d))
            p[i], p[j] = p[j], p[i]
            out.append((np.ones(d), 0.0, p))
    return out


def run_data(case):
    res = Res()
    d, n, law, rho = case["d"], case["n"], case["law"], case["rho"]
    X = make_data(d, n, law, rho)
    if np.linalg.matrix_rank(X - X.mean(0)) < d:
        res.bump("degenerate_skipped")
        return res
    base = fit(X)
    res.evals += 1
    cc = dict(case)
    if not well_posed(res, "fit", X, base, cc):
        return res
    mu0, S0, nu0 = np.asarray(base[0]), np.asarray(base[1]).reshape(d, d), base[2]
    res.outcome((d, n, law, rho, "id"), nontrivial=False)
    sd = np.sqrt(np.diag(S0))
    for k, (s, t, perm) in enumerate(transforms(d, case.get("thorough"), few=bool(case.get("few")))):
        if case.get("tr") is not None and case["tr"] != k:
            continue
        Y = X * s + t
        if perm is not None:
            Y = Y[:, perm]
        out = fit(Y)
        res.evals += 1
        ct = dict(case, tr=k)
        if not well_posed(res, "fit-transformed", Y, out, ct):
            continue
        mu1, S1, nu1 = np.asarray(out[0]), np.asarray(out[1]).reshape(d, d), out[2]
        emu = mu0 * s + t
        eS = S0 * np.outer(s, s)
        esd = sd * s
        if perm is not None:
            emu, eS, esd = emu[perm], eS[np.ix_(perm, perm)], esd[perm]
        tol = 1e-4
        tr_desc = f"scale={s.tolist()} shift={t} perm={perm}"
        nu_ok = (nu0 == nu1) or (math.isfinite(nu0) and math.isfinite(nu1) and abs(nu0 - nu1) <= tol * max(1.0, abs(nu0)) * 10)
        if not nu_ok:
            res.violate("equivariance:dof", f"degrees of freedom change under {tr_desc}: {nu0!r} -> {nu1!r} (d={d}, n={n}, law={law})", ct)
            continue
        # the precision available after translating by t: |t|*eps relative to the data spread
        prec = 1e-13 * (abs(t) / np.min(np.abs(esd))) if t else 0.0
        if np.max(np.abs(mu1 - emu) / esd) > tol + prec:
            res.violate("equivariance:location", f"location not equivariant under {tr_desc}: got {mu1.tolist()}, expected {emu.tolist()} (d={d}, n={n}, law={law})", ct)
        if np.max(np.abs(S1 - eS) / np.outer(esd, esd)) > tol + 10 * prec:
            res.violate("equivariance:scale", f"scale matrix not equivariant under {tr_desc} (max rel. dev {np.max(np.abs(S1 - eS) / np.outer(esd, esd)):.3g}; d={d}, n={n}, law={law})", ct)
        res.outcome((d, n, law, rho, k), nontrivial=math.isfinite(nu0))
    res.states += 1
    res.sample({"d": d, "n": n, "law": law, "rho": rho, "nu_hat": nu0 if math.isfinite(nu0) else "inf", "transformations": len(transforms(d, False))}, cap=1)
    return res


def run_recovery(case):
    res = Res()
    d, nu, rho = case["d"], case["nu"], case["rho"]
    n = 2000
    X = make_data(d, n, f"t{nu}", rho)
    scale = np.array([1.0, 3.0, 0.2, 10.0, 0.5, 2.0, 1.0, 4.0][:d])
    loc = np.array([0.3, -2.0, 5.0, 0.0, 1.0, -1.0, 2.0, 7.0][:d])
    Y = X * scale + loc
    out = fit(Y)
    res.evals += 1
    if not well_posed(res, "recovery", Y, out, case):
        return res
    mu, S, nuh = np.asarray(out[0]), np.asarray(out[1]).reshape(d, d), out[2]
    C = np.eye(d)
    if d > 1 and rho:
        C = np.full((d, d), rho)
        np.fill_diagonal(C, 1.0)
    trueS = C * np.outer(scale, scale)
    # for nearly Gaussian tails nu is identified only through 1/nu (and the quantile grid truncates the tails): accept either metric
    if not (math.isfinite(nuh) and nuh > 0) or (abs(nuh - nu) / nu >= 0.25 and abs(1.0 / nuh - 1.0 / nu) >= 0.03):
        res.violate("recovery:dof", f"t_{nu} grid (d={d}, n={n}): fitted nu = {nuh!r}", case)
    if np.max(np.abs(mu - loc) / scale) > 0.05:
        res.violate("recovery:location", f"t_{nu} grid (d={d}): location {mu.tolist()} vs {loc.tolist()}", case)
    if np.max(np.abs(np.diag(S) - np.diag(trueS)) / np.diag(trueS)) > 0.15:
        res.violate("recovery:scale", f"t_{nu} grid (d={d}): scale diagonal {np.diag(S).tolist()} vs {np.diag(trueS).tolist()}", case)
    res.outcome(("recovery", d, nu, rho), nontrivial=True)
    res.states += 1
    return res


def run_fallback(case):
    """Non-finite nu must be replaced by the configured fallback before it reaches the kernel."""
    from tempest.modes import ModeStatistics
    from tempest.mcmc import TPCNRunner
    from tempest.student import fit_mvstud

    res = Res()
    d, n = case["d"], case["n"]
    X = make_data(d, n, "gauss", 0.0)
    U = (X - X.min(0)) / (X.max(0) - X.min(0)) * 0.8 + 0.1
    w = np.ones(n)
    for fb in (1e6, 7.5):
        for mode in ("global", "particles", "particles-empty-cluster", "particles-empty-first"):
            with OwnedRandom(case["seed"]):
                with np.errstate(all="ignore"):
                    if mode == "global":
                        ms = ModeStatistics.from_global(U, w, dof_fallback=fb)
                    elif mode == "particles":
                        labels = (np.arange(n) % 2)
                        ms = ModeStatistics.from_particles(U, w, labels, dof_fallback=fb)
                    elif mode == "particles-empty-cluster":
                        # the way Trainer calls it: one row per cluster of the model; clusters 1 and 3 attract no particle
                        labels = (np.arange(n) % 2) * 2
                        ms = ModeStatistics.from_particles(U, w, labels, dof_fallback=fb, n_modes=4)
                    else:
                        labels = 1 + (np.arange(n) % 2)
                        ms = ModeStatistics.from_particles(U, w, labels, dof_fallback=fb, n_modes=3)
            res.evals += 1
            dof = np.asarray(ms.degrees_of_freedom, dtype=float)
            cc = dict(case, fb=fb, mode=mode)
            if not np.all(np.isfinite(dof)) or np.any(dof <= 0):
                res.violate("fallback:non-finite-dof", f"ModeStatistics.from_{mode} carries degrees of freedom {dof.tolist()} (fallback {fb})", cc)
                continue
            # which clusters had a non-finite fit? recompute under the same tape
            r = TPCNRunner(U[:3].copy(), U[:3].copy(), np.zeros(3), None, np.zeros(3, dtype=int), 0.5, ms, lambda x: (np.zeros(len(x)), None), lambda u: u,
                           None, 1, 0, None, None, False)
            if not np.all(np.isfinite(r.degrees_of_freedom)) or np.any(r.degrees_of_freedom <= 0):
                res.violate("fallback:kernel", f"kernel sees degrees of freedom {r.degrees_of_freedom}", cc)
            res.outcome(("fallback", d, n, fb, mode, tuple(dof.round(6))), nontrivial=bool(np.any(dof == fb)))
            if np.any(dof == fb):
                res.bump("fallback_engaged")
    res.states += 1
    return res


def _boxes(d, n):
    """three data sets of one shape in pairwise disjoint boxes of the unit cube"""
    out = []
    for k, law in enumerate(("gauss", "t2", "skew")):
        X = make_data(d, n, law, 0.0)
        U = (X - X.min(0)) / (X.max(0) - X.min(0))
        out.append(0.05 + 0.3 * k + 0.25 * U)  # box k = [0.05+0.3k, 0.30+0.3k]^d
    return out


def run_reuse(case):
    """Call histories on the fitting entry points: every ordered sequence (length 2..3) of three data sets in disjoint boxes, presented
    either through ONE caller-owned buffer that is refilled between calls or through fresh arrays.  After every call the locations must lie
    inside the bounding box of the data of THAT call and the result must equal the result of the same call on a private copy."""
    from tempest.modes import ModeStatistics
    from tempest.student import fit_mvstud

    res = Res()
    d, n = case["d"], case["n"]
    sets = _boxes(d, n)
    w = np.ones(n)
    labelings = {"all-occupied": (np.arange(n) % 2, 2), "empty-last": (np.arange(n) % 2, 3), "empty-first": (1 + np.arange(n) % 2, 3), "one-cluster+2-empty": (np.zeros(n, dtype=int), 3)}

    def entry(name, U):
        with OwnedRandom(case["seed"]):
            with np.errstate(all="ignore"):
                if name == "fit_mvstud":
                    mu, S, nu = fit_mvstud(U)
                    return np.atleast_2d(mu), np.asarray(S)[None], np.atleast_1d(nu)
                if name == "from_global":
                    ms = ModeStatistics.from_global(U, w.copy())
                else:
                    lab, K = labelings[name]
                    ms = ModeStatistics.from_particles(U, w.copy(), lab.copy(), n_modes=K)
                return np.array(ms.means), np.array(ms.covariances), np.array(ms.degrees_of_freedom, dtype=float)

    for name in ["fit_mvstud", "from_global"] + list(labelings):
        if case.get("only") and case["only"] != name:
            continue
        try:
            refs = [entry(name, sets[k].copy()) for k in range(3)]  # each data set on a private array, before any sequence
        except Exception as e:
            res.violate(f"reuse:{name}:raises:{type(e).__name__}", f"{name} raised {e!r} on a fresh array", dict(case, only=name))
            continue
        for seq in case["seqs"]:
            for shared in (True, False):
                buf = np.empty((n, d))
                hist = []
                for step, k in enumerate(seq):
                    if shared:
                        buf[...] = sets[k]
                        arg = buf
                    else:
                        arg = sets[k].copy()
                    hist.append(k)
                    cc = dict(case, seqs=[list(seq[: step + 1])], only=name, shared=shared)
                    if "shared" in case and case["shared"] != shared:
                        continue
                    try:
                        mu, S, nu = entry(name, arg)
                        mu2, S2, nu2 = refs[k]
                    except Exception as e:
                        res.violate(f"reuse:{name}:raises:{type(e).__name__}", f"{name} raised {e!r} on data set {k} after data sets {hist[:-1]} (buffer {'re-used' if shared else 'fresh'})", cc)
                        break
                    res.evals += 1
                    res.trans += 1
                    lo, hi = sets[k].min(0), sets[k].max(0)
                    tag = f"{name} on data set #{k} (box [{0.05 + 0.3 * k:.2f},{0.30 + 0.3 * k:.2f}]^{d}, n={n}) after calls on data sets {hist[:-1]}, {'one caller-owned buffer refilled between calls' if shared else 'fresh arrays'}"
                    if not np.all(np.isfinite(mu)) or np.any(mu < lo - 1e-9) or np.any(mu > hi + 1e-9):
                        res.violate("reuse:location-outside-current-data", f"{tag}: locations {mu.tolist()} are not all inside the bounding box of the data passed to this call", cc)
                    elif not (np.array_equal(mu, mu2) and np.array_equal(S, S2) and np.array_equal(nu, nu2)):
                        res.violate("reuse:differs-from-private-copy", f"{tag}: result differs from the same call on a private copy of the same data (locations {mu.tolist()} vs {mu2.tolist()}, dof {nu.tolist()} vs {nu2.tolist()})", cc)
                    res.outcome((name, tuple(seq[: step + 1]), shared, d, n), nontrivial=step > 0)
    res.states += 1
    return res


def run_dforms(case):
    """The same data (quantised so that every spelling carries it exactly) as another dtype / memory layout: the fit must be the same."""
    from mc import forms as fm
    from tempest.modes import ModeStatistics
    from tempest.student import fit_mvstud

    res = Res()
    d, n, law = case["d"], case["n"], case["law"]
    X = np.round(make_data(d, n, law, 0.0) * 64) / 64
    Xi = np.round(X * 8)
    U = np.round(((X - X.min(0)) / (X.max(0) - X.min(0)) * 0.8 + 0.1) * 1024) / 1024
    lab = np.arange(n) % 2

    def entries(A, which):
        with OwnedRandom(case["seed"]):
            with np.errstate(all="ignore"):
                if which == "fit":
                    mu, S, nu = fit_mvstud(A)
                    return np.asarray(mu, dtype=float), np.asarray(S, dtype=float), np.asarray([nu], dtype=float)
                ms = ModeStatistics.from_particles(A, np.ones(n), lab.copy(), n_modes=3) if which == "modes" else ModeStatistics.from_global(A, np.ones(n))
                return np.asarray(ms.means, dtype=float), np.asarray(ms.covariances, dtype=float), np.asarray(ms.degrees_of_freedom, dtype=float)

    for which, base, kinds in (("fit", X, ("strided", "revstrided", "fortran", "readonly", "f32")), ("fit", Xi, ("i64", "i32", "f32", "fortran")),
                               ("modes", U, ("strided", "revstrided", "fortran", "readonly", "f32")), ("global", U, ("strided", "fortran", "readonly", "f32"))):
        try:
            ref = entries(base.copy(), which)
        except Exception as e:
            res.bump("reference_fit_raises")
            continue
        for kind in kinds:
            A = fm.form(base, kind)
            if A is None:
                continue
            cc = dict(case, only=[which, kind])
            if case.get("only") and case["only"] != [which, kind]:
                continue
            keep = np.array(A, dtype=float, copy=True)
            try:
                got = entries(A, which)
            except Exception as e:
                res.violate(f"dforms:{which}:{kind}:raises:{type(e).__name__}", f"{which} raised {e!r} when the data (d={d}, n={n}, {law}) is passed as {kind}; fine as contiguous float64", cc)
                continue
            res.evals += 1
            rtol = 2e-3 if kind == "f32" else 1e-9
            ok = all(fm.same(g, r, rtol=rtol, atol=rtol * 1e-3) or (np.all(np.isinf(g) == np.isinf(r)) and fm.same(np.where(np.isinf(g), 0, g), np.where(np.isinf(r), 0, r), rtol=rtol, atol=rtol * 1e-3))
                     for g, r in zip(got[:2], ref[:2]))
            nu_ok = fm.same(1.0 / got[2], 1.0 / ref[2], rtol=50 * rtol, atol=50 * rtol)
            res.outcome((which, d, n, law, kind), nontrivial=True)
            if not ok or not nu_ok:
                res.violate(f"dforms:{which}:{kind}", f"{which} on data (d={d}, n={n}, {law}) passed as {kind}: location {got[0].tolist()} dof {got[2].tolist()}, "
                            f"but as contiguous float64: location {ref[0].tolist()} dof {ref[2].tolist()} (rtol {rtol:g})", cc)
            if not np.array_equal(np.asarray(A, dtype=float), keep):
                res.violate(f"dforms:{which}:input-modified", f"{which} modified its input array ({kind})", cc)
    res.states += 1
    return res


def run_session19(case):
    """The fit as the pipeline uses it, on one live sampler through the operation patterns (save / load / run / aborted iteration / pickle round trip /
    deep copy with the lockstep copy-versus-original step): every mode handed to the kernel has a finite positive dof, and a copied sampler
    fits and falls back exactly like the original."""
    from mc import session

    def mon(ev):
        if ev.step == "train" and ev.info.get("mode_stats") is not None:
            dof = np.asarray(ev.info["mode_stats"].degrees_of_freedom, dtype=float)
            if not np.all(np.isfinite(dof)) or np.any(dof <= 0):
                ev.probe.violate("session:fallback:non-finite-dof", f"iteration {ev.iter}: the Trainer produced degrees of freedom {dof.tolist()}")

    return session.run_case(case, lambda: [mon], oracle=None, key_pred=lambda k: k.startswith("session:fallback") or k.startswith("session:copy"))


KINDS = {"session": run_session19, "dforms": run_dforms, "reuse": run_reuse, "data": run_data, "recovery": run_recovery, "fallback": run_fallback}


def plan(ctx):
    th = ctx.thorough
    cases = []
    laws = ["gauss", "t1", "t2", "t5", "t30", "skew", "contam5", "contam1", "q0", "walls"]
    for d in (1, 2, 3, 5, 8):
        ns = [4 * d, 10 * d, 50 * d] + ([2000] if th else [])
        for n in sorted(set(ns)):
            for law in laws:
                for rho in ((0.0, 0.9, -0.99) if d > 1 else (0.0,)):
                    if not th and d >= 5 and rho == -0.99:
                        continue
                    cases.append({"kind": "data", "d": d, "n": n, "law": law, "rho": rho, "thorough": th})
    cases += [{"kind": "data", "d": d_, "n": n_, "law": law_, "rho": 0.0, "thorough": th, "few": True} for d_, n_, law_ in ((3, 80000, "t5"), (2, 70001, "t2"), (5, 66000, "gauss"))]  # scale: more rows than any block size
    ctx.explore("equivariance", cases, chunksize=2)
    rec = [{"kind": "recovery", "d": d, "nu": nu, "rho": rho} for d in (1, 2, 3, 5, 8) for nu in (1, 2, 5, 30) for rho in ((0.0, 0.9) if d > 1 else (0.0,))]
    rec += [{"kind": "recovery", "d": 2, "nu": nu, "rho": rho} for nu in (2, 5) for rho in (1 - 1e-6, 1 - 1e-9, 1 - 5e-13)]  # nearly collinear clouds (thin direction 1e-3 .. 1e-6 of the long one)
    ctx.explore("recovery", rec)
    fb = [{"kind": "fallback", "d": d, "n": n, "seed": ctx.seed} for d in (1, 2, 3) for n in (40, 200)]
    agg = ctx.explore("dof-fallback", fb)
    import itertools as _it
    seqs = [list(p) for r in (2, 3) for p in _it.product(range(3), repeat=r) if len(set(p)) > 1]
    ru = [{"kind": "reuse", "d": d, "n": n, "seed": ctx.seed, "seqs": seqs, "only": name} for d in (1, 2, 3) for n in ((24, 60) if th else (24,))
          for name in ("fit_mvstud", "from_global", "all-occupied", "empty-last", "empty-first", "one-cluster+2-empty")]
    ctx.bounds["call_history_sequences"] = len(seqs)
    ctx.explore("call-histories-and-buffer-reuse", ru)
    df = [{"kind": "dforms", "d": d, "n": n, "law": law, "seed": ctx.seed} for d in (1, 2, 3) + ((5,) if th else ()) for n in (8 * d, 40) for law in ("gauss", "t2", "t5", "skew", "contam5")]
    ctx.explore("data-array-forms", df)
    scfg = dict(n_particles=24, d=2, ess_ratio=1.0, n_total=10 ** 6, eval="scalar")
    ctx.explore("pipeline-sessions", [{"kind": "session", "cfg": dict(scfg, target=t, clustering=cl), "base": ctx.seed, "depth": 9, "patterns": [sh, 4]} for t, cl in (("gauss", False), ("bimodal", True)) for sh in range(4)])
    ctx.bounds.update({"dims": [1, 2, 3, 5, 8], "sizes": "4d,10d,50d(,2000)", "laws": laws, "rho": [0, 0.9, -0.99], "data_sets": len(cases), "recovery_cases": len(rec)})
    if not agg.extra.get("fallback_engaged"):
        ctx.notes.append("no fallback case had a non-finite fitted nu under this tape")
