"""C05 - Temperature schedule is monotone, bounded and ESS-controlled.

Synthetic part: a lattice of histories x (n_particles, ess_ratio, metric mode); the real
Reweighter.run() performs one transition on each and is compared with the reference MIS model.
Reachable part: the same oracle on every reweighting transition of every run of a
deviation-bounded tree of tape symbols over the schedule-relevant option lattice.
"""
import itertools

import numpy as np

from mc import env
from mc.core import Res
from mc import lattice
from mc.pipeline import Probe, deviation_tree
from mc.monitors import reweight_errors, schedule_monitor

LEVEL = "model_checking"
RULE = ("synthetic: full product (batch sizes, sorted beta tuple, logZ tuple, logL vector, n_particles, ess_ratio, ESS/volume-variation target) "
        "inside the stated bounds, one real Reweighter.run() transition each; reachable: every reweighting transition of every run with <=D "
        "tape deviations per configuration; a state = (history, beta_prev); non-trivial = transition that advanced beta strictly, "
        "distinct by (history, parameters, new beta).")
ASSUMPTIONS = ["ESS/evidence/weights are compared with an independent float64 implementation of the mixture formula (rel. 1e-9 .. 1e-7)",
               "volume-variation mode is held to the weakest reading: some temperature >= beta-1e-4 still has ESS >= target"]

LOGL = [-6.0, 0.0, 2.0]
LOGZ = [-3.0, 0.0, 2.0]
BETAS = [0.0, 0.25, 0.5, 1.0]
PAIRS = [(2, 1.0), (2, 2.0), (3, 1.5), (4, 3.0), (3, 1.0), (4, 1.5)]
MODES = [None, 0.1, 0.5, 2.0]


def _u_rows(N, d):
    # deterministic, well spread, no ties (van der Corput in bases 2 and 3)
    def vdc(i, b):
        x, f = 0.0, 1.0 / b
        while i:
            x += f * (i % b)
            i //= b
            f /= b
        return x
    return np.array([[vdc(i + 1, 2), vdc(i + 1, 3)][:d] for i in range(N)])


def build(sizes, betas, logzs, lv, d, logl_dtype=float):
    from tempest.state_manager import StateManager

    st = StateManager(d)
    U = _u_rows(sum(sizes), d)
    o = 0
    for t, n in enumerate(sizes):
        st.update_current({"u": U[o:o + n], "x": 20 * U[o:o + n] - 10, "logl": np.array(lv[o:o + n], dtype=logl_dtype), "beta": float(betas[t]),
                           "logz": float(logzs[t]), "iter": t + 1, "calls": 0, "ess": 1.0, "steps": 1, "acceptance": 1.0, "efficiency": 1.0})
        st.commit_current_to_history()
        o += n
    return st


def one_transition(res, case, sizes, betas, logzs, lv, npart, ratio, vv, d=1):
    from tempest.steps.reweight import Reweighter

    # log-likelihood values of the lattice are whole numbers: they are also fed as an integer-typed pool (a vectorised
    # likelihood may legally return an integer ndarray)
    as_int = bool(case.get("int_logl")) and all(float(v).is_integer() for v in lv)
    st = build(sizes, betas, logzs, lv, d, logl_dtype=np.int64 if as_int else float)
    beta_prev = float(betas[-1])
    rw = Reweighter(st, None, n_particles=npart, ess_ratio=ratio, volume_variation=vv, ESS_TOLERANCE=0.01, BETA_TOLERANCE=1e-4)
    cc = {"kind": "rw1", "int_logl": as_int, "sizes": list(sizes), "betas": list(betas), "logzs": list(logzs), "lv": list(lv), "npart": npart, "ratio": ratio, "vv": vv, "d": d}
    try:
        w = rw.run()
    except Exception as e:
        res.violate(f"synthetic:raises:{type(e).__name__}", f"Reweighter.run raised {e!r}", cc)
        return
    res.evals += 1
    res.trans += 1
    for key, msg in reweight_errors(st, npart, ratio, vv, beta_prev, w):
        res.violate(f"synthetic:{key}", msg + f" [sizes={sizes} betas={betas} logZ={logzs} logL={lv} n={npart} ratio={ratio} vv={vv}]", cc)
    if st._current["iter"] != len(sizes) + 1:
        res.violate("synthetic:iter", f"iteration counter {st._current['iter']} after one transition from {len(sizes)}", cc)
    b = float(st._current["beta"])
    res.outcome((tuple(sizes), tuple(betas), tuple(logzs), tuple(lv), npart, ratio, vv, b), nontrivial=b > beta_prev)


def run_block(case):
    res = Res()
    sizes, betas = case["sizes"], case["betas"]
    T, N = len(sizes), sum(sizes)
    lz_t = list(itertools.product(LOGZ, repeat=T))
    if case["lean"]:
        lz_t = lz_t[case["lean"] - 1::max(1, len(lz_t) // 5)][:5]
    if N <= case["full_n"]:
        lvs = list(itertools.product(LOGL, repeat=N))
    else:
        lvs = [tuple(LOGL[(o + s * i) % 3] for i in range(N)) for o in range(3) for s in (1, 2)] + \
              [tuple(LOGL[(i // max(1, N // 3) + o) % 3] for i in range(N)) for o in range(3)]
    params = [(n, r, m) for (n, r) in PAIRS for m in MODES]
    if case["lean"]:
        params = params[case["lean"] - 1::2]
    for lz in lz_t:
        for lv in lvs:
            for (n, r, m) in params:
                one_transition(res, case, sizes, betas, lz, lv, n, r, m, d=1 if m is None else case["d"])
    res.states += len(lz_t) * len(lvs)
    if case.get("sample"):
        res.sample({"sizes": sizes, "betas": betas, "logZ_tuples": len(lz_t), "logL_vectors": len(lvs), "params": len(params)})
    return res


def run_rw1(case):
    res = Res()
    one_transition(res, case, case["sizes"], case["betas"], case["logzs"], case["lv"], case["npart"], case["ratio"], case["vv"], case["d"])
    return res


def run_first(case):
    """First iteration (empty history): beta=0, uniform weights over n_particles."""
    from tempest.state_manager import StateManager
    from tempest.steps.reweight import Reweighter

    res = Res()
    for n, r in PAIRS:
        for vv in MODES:
            st = StateManager(2)
            st.update_current({"iter": 0, "beta": 0.0, "logz": 0.0, "calls": 0})
            w = Reweighter(st, None, n_particles=n, ess_ratio=r, volume_variation=vv).run()
            res.evals += 1
            res.trans += 1
            if st._current["beta"] != 0.0 or len(w) != n or abs(np.sum(w) - 1) > 1e-12 or st._current["iter"] != 1:
                res.violate("synthetic:first", f"first transition: beta={st._current['beta']!r}, {len(w)} weights, iter={st._current['iter']}", case)
            res.outcome(("first", n, r, vv), nontrivial=False)
    return res


def run_pipe(case):
    res = Res()
    cfg = case["cfg"]
    seen = set()

    def one(symbols):
        p = Probe(cfg, symbols=symbols, base=case["base"], monitors=[schedule_monitor()])
        p.run()
        res.evals += 1
        res.states += p.iters
        res.trans += p.iters
        res.traces += 1
        if p.exc is not None:
            res.bump("aborted_runs")
            res.bump("aborted:" + type(p.exc).__name__ + ":" + str(p.exc)[:60])
        for key, msg, det in p.viol[:3]:
            res.violate(key, msg + f" [cfg={cfg} symbols={symbols}]", dict(kind="pipe1", cfg=cfg, base=case["base"], symbols={str(k): v for k, v in symbols.items()}))
        hb = tuple(round(float(b), 12) for b in p.state._history["beta"])
        seen.add(hb)
        return p.iters

    n, capped = deviation_tree(one, alphabet=tuple(case["alphabet"]), max_dev=case["max_dev"], max_runs=case.get("max_runs"))
    if capped:
        res.bump("run_cap_hit")
    for hb in seen:
        res.outcome(("schedule", hb), nontrivial=len(set(hb)) > 2)
    res.sample({"cfg": cfg, "runs": n, "distinct_schedules": len(seen), "one_schedule": list(next(iter(seen)))}, cap=1)
    return res


def run_pipe1(case):
    res = Res()
    p = Probe(case["cfg"], symbols=case.get("symbols"), base=case["base"], monitors=[schedule_monitor()])
    p.run()
    res.evals += 1
    res.states += p.iters
    res.trans += p.iters
    res.outcome(("pipe1", tuple(sorted((k, repr(v)) for k, v in case["cfg"].items())), case["base"]), nontrivial=True)
    if p.exc is not None:
        res.bump("aborted_runs")
    for key, msg, det in p.viol[:3]:
        res.violate(key, msg + f" [cfg={case['cfg']}]", case)
    return res


def _ess_at(ell, beta):
    w = np.exp(beta * (ell - ell.max()))
    return float(w.sum() ** 2 / np.sum(w * w))


def run_edge(case):
    """Boundary-value family: warm-up pools whose ESS crosses the target at 1-delta (and at beta_prev+delta),
    for delta around BETA_TOLERANCE, in ESS mode and in volume-variation mode with a loose target."""
    res = Res()
    n, W, ratio = case["n"], case["W"], case["ratio"]
    N = n * W
    q = (np.arange(N) + 0.5) / N
    from scipy.stats import norm
    ell0 = -0.5 * norm.ppf(q) ** 2 * (1.0 + 0.3 * np.cos(7 * q))
    target = ratio * n
    if not (_ess_at(ell0, 0.0) > target > _ess_at(ell0, 50.0)):
        return res
    lo, hi = 0.0, 50.0
    for _ in range(200):
        mid = 0.5 * (lo + hi)
        if _ess_at(ell0, mid) >= target:
            lo = mid
        else:
            hi = mid
    bstar = lo
    perm = np.argsort((np.arange(N) * 0.6180339887) % 1.0)
    for delta in case["deltas"]:
        s = bstar / (1.0 - delta) if delta < 1 else bstar
        ell = (ell0 * s)[perm]
        for vv in (None, 1e6, 0.5):
            sizes = [n] * W
            one_transition(res, case, sizes, [0.0] * W, [0.0] * W, [float(v) for v in ell], n, ratio, vv, d=1)
    # a pool whose last iteration stopped just short of beta=1 (inside the last BETA_TOLERANCE cell) and must continue
    for gap in (1e-6, 6.103515625e-05, 9e-5, 1.1e-4, 1e-3):
        bp = 1.0 - gap
        for scale in (0.05, 1.0):
            ellw = (ell0 * scale)[perm]
            sizes = [n] * (W + 1)
            betas_h = [0.0] * W + [bp]
            lv = [float(v) for v in ellw] + [float(v) for v in (ell0 * scale)[:n]]
            # consistent evidence values for the history (reference model), so that the state is a reachable-looking one
            from mc.refmodels import mis as _mis
            lz_last = _mis.logw_float([np.array(lv[:N])], [0.0], [0.0], bp)[1]
            for vv in (None, 0.5):
                one_transition(res, case, sizes, betas_h, [0.0] * W + [float(lz_last)], lv, n, ratio, vv, d=1)
    res.states += len(case["deltas"])
    res.sample({"n": n, "warmup_batches": W, "ess_ratio": ratio, "crossing_at": [1 - d for d in case["deltas"]]}, cap=1)
    return res


BATCH = {
    "A": lambda n, k: -4.0 * ((np.arange(n) + 0.5) / n) ** 2 * (1 + 0.1 * k),
    "S": lambda n, k: np.where(np.arange(n) == (k % n), 12.0 + k, -6.0),
    "F": lambda n, k: np.zeros(n),
    "H": lambda n, k: np.full(n, 3.0) - 0.01 * np.arange(n),
}


def run_stateful(case):
    """ONE Reweighter instance driven through every sequence of batch types (explicit-state over histories with persistent
    component state): reweight -> oracle -> commit a scripted batch -> reweight ..."""
    from tempest.state_manager import StateManager
    from tempest.steps.reweight import Reweighter

    res = Res()
    n, ratio, vv, d = case["n"], case["ratio"], case["vv"], 2
    seqs = [tuple(case["only"])] if case.get("only") else [s for s in itertools.product("ASFH", repeat=case["depth"]) if s[0] == case["first"]]
    for seq in seqs:
        st = StateManager(d)
        st.update_current({"iter": 0, "beta": 0.0, "logz": 0.0, "calls": 0})
        rw = Reweighter(st, None, n_particles=n, ess_ratio=ratio, volume_variation=vv)
        beta_prev = None
        cc = dict(case, only=list(seq))
        for k, b in enumerate(seq + ("A",)):
            try:
                w = rw.run()
            except Exception as e:
                res.violate(f"stateful:raises:{type(e).__name__}", f"Reweighter.run raised {e!r} after batches {seq[:k]}", cc)
                break
            res.evals += 1
            res.trans += 1
            errs = reweight_errors(st, n, ratio, vv, beta_prev, w, first=(k == 0))
            for key, msg in errs:
                res.violate(f"stateful:{key}", msg + f" [one Reweighter, batches so far {seq[:k]}, n={n}, ratio={ratio}, vv={vv}]", cc)
            if errs:
                break
            beta_prev = float(st._current["beta"])
            if beta_prev >= 1.0 or k == len(seq):
                break
            U = _u_rows(n * (k + 1), d)[n * k:]
            st.update_current({"u": U, "x": 20 * U - 10, "logl": np.asarray(BATCH[b](n, k), dtype=float)})
            st.commit_current_to_history()
        res.states += 1
        res.outcome(("stateful", n, ratio, vv, seq, beta_prev), nontrivial=bool(beta_prev and beta_prev > 0))
    res.traces += 1
    return res


def run_duo(case):
    """Two samplers alive in one process, every interleaving of their iterations and read-only queries: the recorded temperature / ESS /
    evidence / weights of each must refer to its own history."""
    from mc import session
    return session.run_duo(case, lambda: [schedule_monitor("sched")])


def run_cross5(case):
    """A checkpoint written under options A resumed by a fresh sampler with options B: every reweighting transition of the resumed run
    (history with batches of another size, another ESS / volume-variation target) satisfies the schedule oracle."""
    from mc import session
    return session.run_cross_resume(case, lambda: [schedule_monitor("sched", resumed=True)])


def run_stall(case):
    """Run-length regime: histories that already END with many consecutive batches at one temperature 0 < beta < 1 (the schedule is waiting for the
    pool to grow) while the pool's ESS there is still below the target: the next transition must keep waiting, however long the wait has been."""
    from mc.refmodels import mis as _mis
    res = Res()
    n, W = case["n"], case["W"]
    for m in case["waits"]:
        for bp in (0.25, 0.0625, 0.9):
            T = W + m
            N = n * T
            # a few dominant samples: the ESS at bp is a small fraction of the pool whatever its size
            base = np.where(np.arange(N) % 13 == 3, 40.0, -3.0 - 0.001 * (np.arange(N) % 11))
            lv = [float(v) for v in base / bp * 0.25]
            betas = [0.0] * W + [bp] * m
            lz = float(_mis.logw_float([np.array(lv[: n * W])], [0.0], [0.0], bp)[1])
            logzs = [0.0] * W + [lz] * m
            # ESS(pool at bp) is about N/13: targets between that and the pool size, from just above it (small ess_ratio, long wait relative to it) upwards
            for ratio, vv in ((float(T) / 13 * 1.5, None), (float(T) / 13 * 1.5, 0.5), (float(T) / 13 * 3.0, None), (float(T) * 0.5, None), (float(T) * 0.5, 0.5)):
                one_transition(res, dict(case), [n] * T, betas, logzs, lv, n, ratio, vv, d=1)
    res.states += 1
    return res


def run_sentinel(case):
    """Value regime: likelihoods that return a huge FINITE sentinel (-1e300, -1e30, -1e15) instead of -inf outside their support.  Such samples carry
    full weight at beta=0 and none at any beta > 0, so the ESS is discontinuous at 0: one transition from warm-up pools made of sentinel and
    ordinary samples in several proportions, ESS and volume-variation mode."""
    res = Res()
    n = case["n"]
    for W in (1, 2, 3):
        N = n * W
        for frac in (0.25, 0.5, 0.75):
            k = int(N * frac)
            good = [-0.5 * ((i + 0.5) / (N - k)) ** 2 * case["scale"] for i in range(N - k)]
            lv = [case["sentinel"]] * k + good
            perm = np.argsort((np.arange(N) * 0.6180339887) % 1.0)
            lv = [lv[i] for i in perm]
            for ratio in (0.5 * W * (1 - frac), 0.9 * W * (1 - frac), 0.5 * W * (2 - frac), 0.98 * W):
                for vv in (None, 0.5):
                    one_transition(res, dict(case), [n] * W, [0.0] * W, [0.0] * W, lv, n, float(ratio), vv, d=1)
    res.states += 1
    return res


def run_ladder5(case):
    """Scale ladder: one reweighting transition from pools of 3e4 .. 1.3e5 samples (beyond any block / thinning threshold a refactoring would pick),
    warm-up pools and mid-run pools, ESS and volume-variation mode, with the same oracle as the small lattice."""
    from tempest.steps.reweight import Reweighter
    from scipy.stats import norm
    from mc.refmodels import mis

    res = Res()
    n, W, d = case["n"], case["W"], case["d"]
    N = n * W
    q = (np.arange(N) + 0.5) / N
    perm = np.argsort((np.arange(N) * 0.6180339887) % 1.0)
    base0 = -0.5 * norm.ppf(q) ** 2 * (1.0 + 0.3 * np.cos(7 * q))
    srt = np.sort(base0)
    orders = {"golden": base0[perm], "sorted": srt}
    for period in (2, 3, 4, 8):  # every period-th sample comes from the best 1/period of the pool: any stride-thinned sub-pool is unrepresentative
        o = np.empty(N)
        top = srt[::-1]
        idx_top = np.arange(0, N, period)
        o[idx_top] = top[: len(idx_top)]
        rest = np.setdiff1d(np.arange(N), idx_top)
        o[rest] = top[len(idx_top):][perm[: len(rest)] % len(rest)] if False else top[len(idx_top):]
        orders[f"period{period}"] = o
    for scale, oname in ((0.3, "golden"), (3.0, "golden"), (40.0, "golden"), (3.0, "sorted"), (3.0, "period2"), (3.0, "period3"), (40.0, "period4"), (3.0, "period8"), (0.3, "period2")):
        base = orders[oname]
        for hist in ("warm-up", "mid-run"):
            ell = base * scale
            if hist == "warm-up":
                betas, logzs = [0.0] * W, [0.0] * W
            else:
                betas = [0.0] * (W // 2) + [min(1.0, 0.02 * (k + 1) / scale) for k in range(W - W // 2)]
                logzs = [0.0] * (W // 2) + [float(mis.logw_float([ell], [0.0], [0.0], b)[1]) for b in betas[W // 2:]]
            for ratio, vv in ((2.0, None), (float(W) / 2, None), (2.0, 0.5), (1.0, 0.05)):
                cc = dict(case, only=[scale, oname, hist, ratio, vv])
                if case.get("only") and case["only"] != [scale, oname, hist, ratio, vv]:
                    continue
                st = build([n] * W, betas, logzs, ell, d)
                rw = Reweighter(st, None, n_particles=n, ess_ratio=ratio, volume_variation=vv, ESS_TOLERANCE=0.01, BETA_TOLERANCE=1e-4)
                try:
                    w = rw.run()
                except Exception as e:
                    res.violate(f"ladder:raises:{type(e).__name__}", f"Reweighter.run raised {e!r} on a pool of {N} samples (n={n}, {W} batches, {hist}, scale {scale}, ratio {ratio}, vv {vv})", cc)
                    continue
                res.evals += 1
                res.trans += 1
                for key, msg in reweight_errors(st, n, ratio, vv, float(betas[-1]), w):
                    res.violate(f"ladder:{key}", msg + f" [pool of {N} samples ({oname} order): n={n}, {W} batches, {hist}, likelihood scale {scale}, ess_ratio={ratio}, vv={vv}]", cc)
                res.outcome(("ladder", n, W, d, scale, oname, hist, ratio, vv, float(st._current["beta"])), nontrivial=True)
    res.states += 1
    return res


def run_session5(case):
    """One sampler object through the longer operation patterns (save / load / complete run / aborted iteration / pickle round trip / deep copy,
    incl. the lockstep copy-versus-original step): every reweighting transition satisfies the schedule oracle."""
    from mc import session
    return session.run_case(case, lambda: [schedule_monitor("sched")], oracle=None, key_pred=lambda k: k.startswith("sched:") or k.startswith("session:copy") or k.startswith("session:deepcopy"))


KINDS = {"stall": run_stall, "sentinel": run_sentinel, "ladder": run_ladder5, "session": run_session5, "cross": run_cross5, "duo": run_duo, "edge": run_edge, "stateful": run_stateful, "block": run_block, "rw1": run_rw1, "first": run_first, "pipe": run_pipe, "pipe1": run_pipe1}

FACTORS = [
    ("sample", ["tpcn", "rwm"]),
    ("resample", ["mult", "syst"]),
    ("clustering", [False, True]),
    ("vv", [None, 0.02, 0.05, 0.5, 2.0]),
    ("ess_ratio", [1.0, 1.5, 2.0, 3.0]),
    ("n_particles", [12, 24]),
    ("target", ["gauss", "bimodal"]),
]


def plan(ctx):
    th = ctx.thorough
    blocks = [{"kind": "first"}]
    for T in (1, 2, 3) if th else (1, 2):
        for sizes in itertools.product([2, 3, 4], repeat=T):
            for betas in itertools.combinations_with_replacement(BETAS, T):
                lean = 0
                if T == 2 and not th:
                    lean = 1 + (hash((sizes, betas)) + ctx.seed) % 2
                if T == 3:
                    lean = 1 + (hash((sizes, betas)) + ctx.seed) % 2
                    if len(set(sizes)) == 1 and (hash((sizes, betas)) + ctx.seed) % 3:
                        continue
                blocks.append({"kind": "block", "int_logl": (len(blocks) % 3 == 0), "sizes": list(sizes), "betas": list(betas), "lean": lean, "full_n": 4 if T == 1 else (4 if th else 3), "d": 1 + (len(blocks) % 2),
                               "sample": len(blocks) in (3, 40)})
    ctx.bounds.update({"synthetic": {"T": [1, 2, 3] if th else [1, 2], "batch_sizes": [2, 3, 4], "betas_sorted_from": BETAS, "logZ": LOGZ, "logL": LOGL,
                                     "n_particles x ess_ratio": PAIRS, "modes(vv target or None=ESS)": MODES, "blocks": len(blocks)}})
    ctx.explore("synthetic-transitions", blocks, chunksize=2)
    deltas = [1e-6, 1e-5, 3e-5, 9e-5, 1.1e-4, 5e-4, 1e-2]
    edge = [{"kind": "edge", "n": n, "W": W, "ratio": r, "deltas": deltas} for n in (16, 64) for W in (2, 3, 5) for r in (1.0, 1.5, 2.0) if r < W]
    ctx.explore("beta-tolerance-edges", edge)
    stf = [{"kind": "stateful", "n": n, "ratio": r, "vv": vv, "depth": 5 if th else 4, "first": f}
           for (n, r) in ((8, 1.0), (16, 2.0), (64, 2.0)) for vv in (None, 0.02, 0.05, 0.5) for f in "ASFH"]
    ctx.explore("stateful-reweighter-sequences", stf)
    dcfg = dict(n_particles=8, d=1, ess_ratio=1.0, n_total=10 ** 6, eval="scalar", clustering=False)
    duo = [{"kind": "duo", "cfg": dict(dcfg, vv=vv), "base": ctx.seed, "depth": 5 if th else 4, "shard": [sh, 8]} for vv in (None, 0.5) for sh in range(8)]
    ctx.explore("two-samplers-interleaved", duo)
    ctx.explore("long-waits-at-one-temperature", [{"kind": "stall", "n": n_, "W": W_, "waits": [1, 5, 7, 8, 13, 20, 40]} for n_, W_ in ((8, 2), (16, 3))])
    ctx.explore("finite-sentinel-likelihoods", [{"kind": "sentinel", "n": n_, "sentinel": sv, "scale": sc} for n_ in (16, 64) for sv in (-1e300, -1e30, -1e15) for sc in (1.0, 30.0)])
    ctx.explore("scale-ladder", [{"kind": "ladder", "n": n_, "W": W_, "d": 2} for n_, W_ in ((4096, 9), (2048, 20), (8192, 8)) + (((16384, 8),) if th else ())])
    from mc.pipeline import LARGE
    ctx.explore("large-scopes", [{"kind": "pipe1", "cfg": c, "base": ctx.seed + b} for c in LARGE for b in ((0, 4) if th else (0,))])
    ctx.explore("session-patterns", [{"kind": "session", "cfg": dict(dcfg, vv=vv, ess_ratio=er), "base": ctx.seed, "depth": 9, "patterns": [sh, 4]} for vv, er in ((None, 1.0), (0.5, 2.0)) for sh in range(4)])
    from mc import session as _s2
    ctx.explore("resume-with-other-options", [{"kind": "cross", "cfg": dict(n_particles=16, d=2, n_total=48, eval="scalar", clustering=False), "pair": list(pr), "base": ctx.seed + b} for pr in _s2.CROSS for b in ((0, 5) if th else (0,))])
    strength = 3 if th else 2
    rows = lattice.covering_array(FACTORS, strength=strength, seed=ctx.seed)
    cov, tot = lattice.count_covered(rows, FACTORS, strength)
    cases = []
    for r in rows:
        cfg = dict(r)
        cfg["n_total"] = 4 * cfg["n_particles"]
        cases.append({"kind": "pipe", "cfg": cfg, "base": ctx.seed, "alphabet": ["a", "b", "c"] if th else ["a", "b"], "max_dev": 2 if th else 1, "max_runs": 120 if th else 8})
    ctx.bounds.update({"reachable": {"configs": len(rows), "covering_strength": strength, "tuples_covered": f"{cov}/{tot}", "max_deviations": 2 if th else 1}})
    agg = ctx.explore("reachable-schedules", cases)
    if agg.extra.get("run_cap_hit"):
        ctx.cap(f"per-configuration run cap hit in {agg.extra['run_cap_hit']} configurations")
