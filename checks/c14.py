"""C14 - Cluster labels and proposal modes stay coherent for every history and cadence.

(a) Environment-answer enumeration with a scripted clusterer: ALL label vectors the clusterer can
    answer for the trimmed training pool (including vectors in which a label does not occur) x ALL
    label vectors for the resampled particles, through the real Trainer.run and Resampler.run.
(b) Real clusterer on a lattice of weighted pools (blobs of different size, spread and weight, so
    that trimming removes whole blobs), all systematic-resampling offsets.
(c) Cadence x warm-up length x kernel x cap x resume-from-every-checkpoint on the real sampler,
    with the coherence monitor armed at every kernel entry.
"""
import itertools
import math

import numpy as np

from mc import env
from mc.core import Res
from mc import targets, lattice
from mc.tape import OwnedRandom
from mc.pipeline import Probe, deviation_tree
from mc.refmodels.fs import MemFS
from mc.refmodels import resample as rref

LEVEL = "model_checking"
RULE = ("(a) full product of predicted-label vectors {0..K-1}^m (training pool, m in {4,5,6}, K in {2,3}) x {0..K-1}^3 (resampled particles); "
        "(b) pool lattice x clusterer options x systematic offsets; (c) every kernel entry of every run over cluster_every x warm-up length x kernel x "
        "normalize x cap, plus a resume from every checkpoint; a state = (labels, mode statistics) at a kernel entry; non-trivial = state with >=2 modes "
        "or a label that does not occur among the training labels.")
ASSUMPTIONS = ["'fitted from the same cluster' is decided differentially: mode l must equal the single-cluster fit of exactly the training points labelled l (scripted resampling answers), "
               "and at pipeline level its location must lie inside the bounding box of those points",
               "a label without any training point must still refer to an existing, valid mode"]


class StubClusterer:
    """fit is a no-op; predict answers are scripted (first call: training pool, second: resampled set)."""

    def __init__(self, answers, K=None):
        self.K = K
        self.answers = list(answers)
        self.labels_ = None
        self.calls = 0
        self.n_clusters_ = 0

    def fit(self, X, w=None):
        self.labels_ = np.zeros(len(X), dtype=int)
        # a fitted model with K clusters answers labels in [0, K) for any query
        self.n_clusters_ = self.K if self.K is not None else 1 + max(max(a) for a in self.answers)
        return self

    def predict(self, X):
        a = self.answers[min(self.calls, len(self.answers) - 1)]
        self.calls += 1
        if len(a) != len(X):
            raise HarnessMismatch(f"scripted answer has {len(a)} labels for {len(X)} points")
        return np.array(a, dtype=int)


class HarnessMismatch(Exception):
    pass


def _choice_cycle(t, a, size=None, replace=True, p=None):
    n = int(a) if np.ndim(a) == 0 else len(a)
    idx = np.arange(int(np.prod(size))) % n
    return idx if np.ndim(a) == 0 else np.asarray(a)[idx]


def modes_valid(ms):
    out = []
    K = ms.K
    for l in range(K):
        C = np.asarray(ms.covariances[l], dtype=float)
        if not np.all(np.isfinite(ms.means[l])):
            out.append((l, "mean not finite"))
        if not np.all(np.isfinite(C)) or np.max(np.abs(C - C.T)) > 1e-12 * max(1e-300, np.max(np.abs(C))):
            out.append((l, "scale matrix not finite/symmetric"))
        else:
            try:
                np.linalg.cholesky(C)
                if np.linalg.eigvalsh(C).min() <= 0:
                    out.append((l, "scale matrix not positive definite"))
            except np.linalg.LinAlgError:
                out.append((l, "scale matrix not positive definite"))
        nu = float(ms.degrees_of_freedom[l])
        if not (nu > 0) or math.isnan(nu):
            out.append((l, f"degrees of freedom {nu!r}"))
    return out


def _pool_state(m, d, n_batches=2):
    from tempest.state_manager import StateManager

    st = StateManager(d)
    pts = np.array([[0.08 + 0.84 * (i + 0.5) / m, 0.15 + 0.7 * ((i * 3) % m + 0.5) / m][:d] for i in range(m)])
    sizes = [m - m // 2, m // 2]
    o = 0
    for t, nt in enumerate(sizes):
        u = pts[o:o + nt]
        x = np.array([targets.pt_affine(ui) for ui in u])
        st.update_current({"u": u, "x": x, "logl": np.array([targets.ll_gauss(xi) for xi in x]), "beta": 0.0 if t == 0 else 0.4, "logz": 0.0,
                           "iter": t + 1, "calls": 0, "steps": 1, "efficiency": 1.0, "acceptance": 1.0, "ess": float(m)})
        st.commit_current_to_history()
        o += nt
    st.update_current({"beta": 0.6, "iter": 3})
    return st, pts


def run_scripted(case):
    from tempest.steps.train import Trainer
    from tempest.steps.resample import Resampler
    from tempest.modes import ModeStatistics
    from tempest.mcmc import parallel_mcmc

    res = Res()
    m, K, d, n = case["m"], case["K"], case["d"], 3
    only = case.get("only")
    trains = [tuple(only[0])] if only else list(itertools.product(range(K), repeat=m))
    for Lt in trains:
        if case.get("first") is not None and Lt[0] != case["first"]:
            continue
        ress = [tuple(only[1])] if only else list(itertools.product(range(K), repeat=n))
        # one Trainer.run per training vector; Resampler.run per resampled vector
        st, pts = _pool_state(m, d)
        w = np.ones(m) / m  # uniform weights: trimming keeps everything, so the training pool is the whole pool
        stub = StubClusterer([Lt], K)
        cc0 = dict(case, only=[list(Lt), [0] * n])
        with OwnedRandom(3, handlers={"choice": _choice_cycle}):
            try:
                ms = Trainer(st, None, stub, 1, True, 0.99, 1000, 1e6).run(w.copy())
            except HarnessMismatch:
                res.bump("trim_changed_pool_size")
                continue
            except Exception as e:
                res.violate(f"scripted:train-raises:{type(e).__name__}", f"Trainer.run raised {e!r} for predicted training labels {Lt}", cc0)
                continue
        res.evals += 1
        res.trans += 1
        bad = modes_valid(ms)
        if bad:
            res.violate("scripted:mode-invalid", f"training labels {Lt}: mode {bad[0][0]} invalid ({bad[0][1]})", cc0)
            continue
        present = sorted(set(Lt))
        # reference: single-cluster fit of exactly the points labelled l
        ref = {}
        for l in present:
            idx = [i for i in range(m) if Lt[i] == l]
            with OwnedRandom(3, handlers={"choice": _choice_cycle}):
                g = ModeStatistics.from_global(pts[idx], w[idx], dof_fallback=1e6)
            ref[l] = g
        for Lr in ress:
            stub2 = StubClusterer([Lr], K)
            stub2.labels_ = np.zeros(1)
            st2, _ = _pool_state(m, d)
            cc = dict(case, only=[list(Lt), list(Lr)])
            with OwnedRandom(4, handlers={"random": lambda t, *a, **k: 0.37 if not (a or k) else OwnedRandom.PASS}):
                try:
                    Resampler(st2, n, "syst", stub2, True, False).run(w.copy())
                except Exception as e:
                    res.violate(f"scripted:resample-raises:{type(e).__name__}", f"Resampler.run raised {e!r}", cc)
                    continue
            a = np.asarray(st2._current["assignments"])
            res.evals += 1
            res.trans += 1
            res.states += 1
            missing = [l for l in set(Lr) if l not in present]
            res.outcome((m, K, d, Lt, Lr), nontrivial=(ms.K >= 2 or bool(missing)))
            if not np.array_equal(a, np.array(Lr)):
                res.violate("scripted:assignments", f"assignments {a.tolist()} are not the clusterer's labels {Lr} for the resampled particles", cc)
                continue
            failed = False
            for k in range(n):
                l = int(a[k])
                if not (0 <= l < ms.K):
                    res.violate("labels:refer-to-missing-mode", f"training labels {Lt} -> {ms.K} modes, but a resampled particle carries label {l} (no such mode)", cc)
                    failed = True
                    break
                if l in ref:
                    g = ref[l]
                    if not (np.array_equal(ms.means[l], g.means[0]) and np.array_equal(ms.covariances[l], g.covariances[0])
                            and (ms.degrees_of_freedom[l] == g.degrees_of_freedom[0])):
                        res.violate("labels:mode-from-other-cluster", f"training labels {Lt}: the mode a particle labelled {l} is sent to was not fitted from the training points labelled {l} "
                                    f"(mode mean {ms.means[l].tolist()}, cluster-{l} fit mean {g.means[0].tolist()})", cc)
                        failed = True
                        break
            if failed:
                continue
            # the kernel must accept these inputs
            cur = st2._current
            with OwnedRandom(5):
                try:
                    parallel_mcmc(u=cur["u"], x=cur["x"], logl=cur["logl"], blobs=None, assignments=a, beta=0.6, mode_stats=ms,
                                  log_likelihood=lambda x: (np.array([targets.ll_gauss(xi) for xi in x]), None), prior_transform=targets.pt_affine,
                                  n_steps=1, n_max=0, sample=case["kernel"], verbose=False)
                except Exception as e:
                    res.violate(f"kernel:raises:{type(e).__name__}", f"kernel raised {e!r} for labels {Lr} and {ms.K} modes", cc)
    res.traces += 1
    res.sample({"m": m, "K": K, "d": d, "training_label_vectors": len(trains), "resampled_label_vectors": K ** n}, cap=1)
    return res


# ------------------------------------------------------------------------------------------ (b)
def _blob_pool(d, spec):
    """Deterministic pool: blobs at grid centres with given sizes, spreads and weight factors."""
    pts, w = [], []
    k = 0
    for (centre, size, spread, wf) in spec:
        for i in range(size):
            k += 1
            off = np.array([math.sin(1.7 * k + 0.3 * j) for j in range(d)]) * spread
            pts.append(np.clip(np.array(centre[:d]) + off, 0.001, 0.999))
            w.append(wf * (1.0 + 0.3 * math.cos(2.3 * k)))
    w = np.array(w)
    return np.array(pts), w / w.sum()


def run_realpool(case):
    from tempest.state_manager import StateManager
    from tempest.steps.train import Trainer
    from tempest.steps.resample import Resampler
    from tempest.cluster import HierarchicalGaussianMixture
    from tempest.tools import trim_weights
    from tempest.mcmc import parallel_mcmc

    res = Res()
    d = case["d"]
    centres = [(0.2, 0.25, 0.3), (0.75, 0.7, 0.6), (0.5, 0.15, 0.85)]
    sizes = [2 * d, 4 * d, 12, 40]
    spreads = [0.01, 0.05, 0.2]
    wfs = [1.0, 1e-3, 1e-8]
    specs = []
    for nb in (2, 3):
        for sz in itertools.product(sizes, repeat=nb):
            if case["size_first"] != sz[0]:
                continue
            for sp in spreads:
                if case.get("spread") is not None and sp != case["spread"]:
                    continue
                for wf in itertools.product(wfs, repeat=nb - 1):
                    if nb == 3 and not case["thorough"] and (hash((sz, sp, wf)) + env.SEED) % 12:
                        continue
                    specs.append([(centres[i], sz[i], sp, (1.0,) + wf if False else ([1.0] + list(wf))[i]) for i in range(nb)])
    opts = list(itertools.product([True, False], [None, 1, 2, 3], [0.5, 1.0, 2.0])) if case["thorough"] else \
        [(True, None, 1.0), (False, None, 1.0), (True, 2, 1.0), (False, 3, 2.0)]
    n = 6
    for si, spec in enumerate(specs):
        U, w = _blob_pool(d, spec)
        m = len(U)
        for (norm, cap, thr) in opts:
            st = StateManager(d)
            half = m // 2
            for t, sl in enumerate((slice(0, half), slice(half, m))):
                u = U[sl]
                x = np.array([targets.pt_affine(ui) for ui in u])
                st.update_current({"u": u, "x": x, "logl": np.array([targets.ll_gauss(xi) for xi in x]), "beta": 0.0 if t == 0 else 0.4, "logz": 0.0,
                                   "iter": t + 1, "calls": 0, "steps": 1, "efficiency": 1.0, "acceptance": 1.0, "ess": float(m)})
                st.commit_current_to_history()
            st.update_current({"beta": 0.6, "iter": 3})
            clu = HierarchicalGaussianMixture(n_init=1, max_iterations=1000 if cap is None else cap - 1, min_points=None if cap is None else 4 * d,
                                              threshold_modifier=thr, covariance_type="full", verbose=False, normalize=norm)
            cc = dict(case, spec_index=si, opt=[norm, cap, thr])
            if case.get("spec_index") is not None and (case["spec_index"] != si or case.get("opt") != [norm, cap, thr]):
                continue
            with OwnedRandom(7):
                try:
                    ms = Trainer(st, None, clu, 1, True, 0.99, 1000, 1e6).run(w.copy())
                except Exception as e:
                    res.violate(f"real:train-raises:{type(e).__name__}", f"Trainer.run raised {e!r} on pool spec {spec} (normalize={norm}, cap={cap}, thr={thr})", cc)
                    continue
            res.evals += 1
            res.trans += 1
            bad = modes_valid(ms)
            if bad:
                res.violate("real:mode-invalid", f"pool {spec}: mode {bad[0][0]} invalid ({bad[0][1]})", cc)
                continue
            tidx, wt = trim_weights(np.arange(m), w.copy(), ess=0.99, bins=1000)
            Lt = clu.predict(U[tidx])
            present = sorted(set(int(v) for v in Lt))
            if clu.n_clusters_ > len(present):
                res.bump("witness:fitted_cluster_without_training_label")
            if cap is not None and clu.n_clusters_ > cap:
                res.violate("real:cap-exceeded", f"{clu.n_clusters_} clusters with n_max_clusters={cap}", cc)
            cells, C, last_pos, tau = rref.wide_cells(n, w)
            for (a_, b_, mid) in cells[:: max(1, len(cells) // (40 if case["thorough"] else 4))]:
                with OwnedRandom(8, handlers={"random": lambda t, *a, **k: mid if not (a or k) else OwnedRandom.PASS}):
                    try:
                        Resampler(st, n, "syst", clu, True, False).run(w.copy())
                    except Exception as e:
                        res.violate(f"real:resample-raises:{type(e).__name__}", f"Resampler.run raised {e!r}", dict(cc, u0=mid))
                        continue
                a = np.asarray(st._current["assignments"])
                res.evals += 1
                res.states += 1
                res.trans += 1
                miss = [int(l) for l in set(a.tolist()) if l not in present]
                res.outcome((d, si, norm, cap, thr, tuple(a.tolist()), ms.K), nontrivial=(ms.K >= 2 or bool(miss)))
                ok = True
                for k in range(n):
                    l = int(a[k])
                    if not (0 <= l < ms.K):
                        res.violate("labels:refer-to-missing-mode", f"pool {spec} (normalize={norm}, cap={cap}): {ms.K} modes but an active particle carries label {l}", dict(cc, u0=mid))
                        ok = False
                        break
                    pts_l = U[tidx][Lt == l]
                    if len(pts_l):
                        lo, hi = pts_l.min(0) - 1e-9, pts_l.max(0) + 1e-9
                        if np.any(ms.means[l] < lo) or np.any(ms.means[l] > hi):
                            res.violate("labels:mode-from-other-cluster", f"pool {spec}: mode {l} has its location {ms.means[l].tolist()} outside the bounding box of the training points labelled {l}", dict(cc, u0=mid))
                            ok = False
                            break
                if ok:
                    cur = st._current
                    with OwnedRandom(5):
                        try:
                            parallel_mcmc(u=cur["u"], x=cur["x"], logl=cur["logl"], blobs=None, assignments=a, beta=0.6, mode_stats=ms,
                                          log_likelihood=lambda x: (np.array([targets.ll_gauss(xi) for xi in x]), None), prior_transform=targets.pt_affine,
                                          n_steps=1, n_max=0, sample="tpcn", verbose=False)
                        except Exception as e:
                            res.violate(f"kernel:raises:{type(e).__name__}", f"kernel raised {e!r} on pool {spec}", dict(cc, u0=mid))
    res.traces += 1
    res.sample({"d": d, "pools": len(specs), "options": len(opts), "first_pool": [list(map(float, s[0][:d])) + [s[1], s[2], s[3]] for s in specs[0]] if specs else None}, cap=1)
    return res


# ------------------------------------------------------------------------------------------ (c)
def coherence_monitor():
    memo = {}

    def mon(ev):
        from tempest.tools import trim_weights

        p = ev.probe
        if not p.cfg["clustering"]:
            return
        st = p.state
        if ev.step == "train" and float(st._current["beta"]) > 0.0:
            w = np.array(ev.info["weights_in"], copy=True)
            U = np.concatenate(st._history["u"])
            tidx, _ = trim_weights(np.arange(len(w)), w, ess=0.99, bins=1000)
            clu = p.sampler._core.trainer.clusterer
            try:
                Lt = clu.predict(U[tidx])
            except Exception:
                Lt = None
            memo["train"] = (U[tidx], Lt, clu.n_clusters_)
            it = st._current["iter"]
            ce = p.cfg["cluster_every"]
            p.abstract.add((int(it) % ce, True, True, bool(p.iter_offset)))
        if ev.step == "mutate":
            for kc in ev.info["kernel_calls"]:
                ms, a = kc["mode_stats"], np.asarray(kc["assignments"])
                for l, why in modes_valid(ms)[:1]:
                    p.violate("pipe:mode-invalid", f"iteration {ev.iter}: mode {l} at the kernel entry is invalid ({why})", iter=ev.iter)
                if len(a) != len(kc["u"]):
                    p.violate("pipe:assignments-length", f"iteration {ev.iter}: {len(a)} labels for {len(kc['u'])} walkers", iter=ev.iter)
                if a.min() < 0 or a.max() >= ms.K:
                    p.violate("labels:refer-to-missing-mode", f"iteration {ev.iter}: {ms.K} modes but an active particle carries label {int(a.max())}", iter=ev.iter)
                    continue
                tr = memo.get("train")
                if tr is not None and tr[1] is not None:
                    Ut, Lt, _ = tr
                    # the labels of the active particles must be the labels the TRAINING model gives them (one shared model; the
                    # prediction is row-wise, so it is taken inside a batch together with the training pool)
                    try:
                        clu = p.sampler._core.trainer.clusterer
                        exp = np.asarray(clu.predict(np.vstack([np.asarray(kc["u"]), Ut])))[: len(a)]
                    except Exception:
                        exp = None
                    if exp is not None and not np.array_equal(exp, a):
                        bad = int(np.sum(exp != a))
                        p.violate("labels:not-those-of-the-training-model", f"iteration {ev.iter}: {bad} of {len(a)} active particles carry a label that the model used to fit the modes does not give them "
                                  f"(labels {a.tolist()[:8]} vs {exp.tolist()[:8]})", iter=ev.iter)
                    for l in sorted(set(a.tolist())):
                        pts_l = Ut[Lt == l]
                        if len(pts_l):
                            lo, hi = pts_l.min(0) - 1e-9, pts_l.max(0) + 1e-9
                            if np.any(ms.means[l] < lo) or np.any(ms.means[l] > hi):
                                p.violate("labels:mode-from-other-cluster", f"iteration {ev.iter}: mode {l} lies outside the bounding box of the training points labelled {l}", iter=ev.iter)
                        else:
                            p.notes_missing = getattr(p, "notes_missing", 0) + 1

    return mon


def run_cadence(case):
    res = Res()
    cfg = dict(case["cfg"])
    cfg.update(save_every=1, output_dir="/memfs/c14", output_label="c")
    fs = MemFS()
    p = Probe(cfg, base=case["base"], fs=fs, monitors=[coherence_monitor()])
    p.abstract = set()
    p.run()
    res.evals += 1
    res.traces += 1
    res.states += p.events
    res.trans += p.events
    cc = dict(case)
    if p.exc is not None and type(p.exc).__name__ == "Horizon":
        res.bump("horizon_reached")  # the harness's own cap on the number of iterations, not a failure of the library
    elif p.exc is not None:
        res.violate(f"pipe:raises:{type(p.exc).__name__}", f"run raised {p.exc!r} (cfg={case['cfg']})", cc)
        return res
    for key, msg, det in p.viol[:3]:
        res.violate(key, msg + f" [cfg={case['cfg']}]", cc)
    abstract = set(p.abstract)
    res.bump("labels_without_training_points", getattr(p, "notes_missing", 0))
    # resume from every checkpoint into a fresh sampler (fresh, unfitted clusterer)
    cks = sorted((k for k in fs.files if k.endswith(".state") and not k.endswith("_final.state")), key=lambda s: int(s.split("_")[-1].split(".")[0]))
    for ci, path in enumerate(cks):
        k = int(path.split("_")[-1].split(".")[0])
        if case.get("resume_k") is not None and case["resume_k"] != k:
            continue
        if not case.get("all_checkpoints", True) and case.get("resume_k") is None and ci >= 2 and ci % 2:
            continue  # quick: the first two checkpoints and every second one afterwards
        if case.get("resume_only") is not None and case.get("resume_k") is None and ci not in [c_ % max(1, len(cks)) for c_ in case["resume_only"]]:
            continue  # large scopes: a first, a middle and the last checkpoint only
        rcfg = dict(cfg)
        rcfg.pop("save_every")
        q = Probe(rcfg, base=case["base"], fs=fs, iter_offset=k, monitors=[coherence_monitor()])
        q.abstract = set()
        q.run(resume_state_path=path)
        res.evals += 1
        res.traces += 1
        res.states += q.events
        res.trans += q.events
        ck = dict(case, resume_k=k)
        if q.exc is not None:
            res.violate(f"resume:raises:{type(q.exc).__name__}", f"resuming from checkpoint {k} raised {q.exc!r} (cfg={case['cfg']})", ck)
            continue
        for key, msg, det in q.viol[:3]:
            res.violate("resume:" + key, msg + f" [resumed from checkpoint {k}, cfg={case['cfg']}]", ck)
        abstract |= q.abstract
    res.bump("abstract_states", len(abstract))
    res.extra["abstract_state_set"] = set(str(a) for a in abstract)
    res.outcome(tuple(sorted((k, repr(v)) for k, v in case["cfg"].items())), nontrivial=True)
    res.sample({"cfg": case["cfg"], "checkpoints_resumed": len(cks)}, cap=1)
    return res


def run_session14(case):
    """One clustering sampler object through save / load / iterate sequences, label/mode coherence monitor armed at every kernel entry."""
    from mc import session
    c = dict(case, raise_is_violation=True)
    return session.run_case(c, lambda: [coherence_monitor()], oracle=None, key_pred=None)


def run_duo14(case):
    """Two clustering samplers (different targets / cadences / caps) alive in one process, every interleaving of their iterations and queries:
    at every kernel entry of either, labels and modes must be coherent with ITS OWN clusterer and particles."""
    from mc import session
    return session.run_duo(case, lambda: [coherence_monitor()])


def run_cross14(case):
    """A checkpoint written with / without clustering (or another cadence, particle count) resumed by a fresh clustering sampler: labels and modes
    coherent at every kernel entry of the resumed run."""
    from mc import session
    return session.run_cross_resume(case, lambda: [coherence_monitor()])


KINDS = {"cross": run_cross14, "duo": run_duo14, "session": run_session14, "scripted": run_scripted, "realpool": run_realpool, "cadence": run_cadence}


def plan(ctx):
    th = ctx.thorough
    a = []
    for K in (2, 3):
        for m in (4, 5, 6):
            for d in (1, 2):
                if not th and (m == 6 and K == 3 and d == 2):
                    continue
                for first in range(K):
                    a.append({"kind": "scripted", "m": m, "K": K, "d": d, "kernel": "tpcn" if (m + d) % 2 else "rwm", "first": first})
    ctx.explore("scripted-clusterer", a)
    b = []
    for d in (1, 2):
        for s0 in (2 * d, 4 * d, 12, 40):
            for sp in (0.01, 0.05, 0.2):
                b.append({"kind": "realpool", "d": d, "size_first": s0, "spread": sp, "thorough": th})
    ctx.explore("real-clusterer-pools", b)
    c = []
    for ce in (1, 2, 3, 4, 5, 7):
        for ratio in ((1.0, 2.0, 3.0, 4.0, 5.0) if th else (1.0, 2.0, 4.0)):
            for kern in ("tpcn", "rwm"):
                for norm in (True, False):
                    for cap in (None, 1, 2):
                        if not th and (hash((ce, ratio, kern, norm, cap)) + ctx.seed) % 4:
                            continue
                        c.append({"kind": "cadence", "base": ctx.seed, "all_checkpoints": th, "cfg": dict(clustering=True, cluster_every=ce, ess_ratio=ratio, sample=kern, normalize=norm,
                                                                                 n_max_clusters=cap, target="unequal" if (ce + int(ratio)) % 2 else "bimodal",
                                                                                 n_particles=32 if (ce + int(ratio)) % 2 else 24, n_total=96)})
    # dynamic (volume-variation) schedules: the temperature often stalls for several iterations (exactly equal consecutive betas below 1)
    for ce in (1, 2, 3):
        for kern in ("tpcn", "rwm"):
            for vv in (0.5, 0.05):
                for tgt in (("bimodal", "unequal") if th else (("bimodal",) if (ce + (vv < 0.1)) % 2 else ("unequal",))):
                    c.append({"kind": "cadence", "base": ctx.seed, "all_checkpoints": False, "cfg": dict(clustering=True, cluster_every=ce, ess_ratio=2.0, vv=vv, sample=kern, normalize=True,
                                                                                                         n_max_clusters=None, target=tgt, n_particles=24, n_total=96)})
    for npart in (1, 2):  # one / two active particles: every prediction the pipeline makes is a one- or two-row query; several tapes, longer runs (they are cheap)
        for kern in ("tpcn", "rwm"):
            for tgt in ("bimodal", "unequal"):
                for tape in range(6 if th else 3):
                    c.append({"kind": "cadence", "base": ctx.seed + 1000 * tape, "all_checkpoints": False, "cfg": dict(clustering=True, cluster_every=1 + (npart % 2), ess_ratio=4.0 if tape % 2 else 2.0, sample=kern, normalize=True,
                                                                                                                        n_max_clusters=None, target=tgt, n_particles=npart, n_total=30)})
    ctx.bounds.update({"scripted": {"K": [2, 3], "m": [4, 5, 6], "n_resampled": 3}, "cadence": {"cluster_every": [1, 2, 3, 4, 5, 7], "configs": len(c), "resume": "from every checkpoint"}})
    if not th:
        ctx.notes.append("quick: one quarter of the cadence lattice and one eighth of the three-blob pools (rotated by VERIF_SEED); every selected run is resumed from every checkpoint")
    ses = []
    for ce in (2, 3):
        for tgt in ("bimodal", "unequal"):
            scfg = dict(clustering=True, cluster_every=ce, n_particles=24, d=2, ess_ratio=1.0, n_total=10 ** 6, target=tgt, sample="tpcn" if ce == 2 else "rwm")
            for sh in range(4):
                ses.append({"kind": "session", "cfg": scfg, "base": ctx.seed, "depth": 9, "patterns": [sh, 4 if th else 8]})
    ctx.explore("session-sequences", ses)
    from mc.pipeline import LARGE
    big = [{"kind": "cadence", "base": ctx.seed, "all_checkpoints": False, "resume_only": [1, -1], "cfg": dict(c, normalize=True)} for c in LARGE if c.get("clustering") and c.get("max_iters") is None]
    big += [{"kind": "cadence", "base": ctx.seed, "all_checkpoints": False, "resume_only": [1, -1], "cfg": dict(n_particles=400, d=2, n_total=1200, eval="vec", clustering=True, target="sixblob", n_max_clusters=None, normalize=nm, cluster_every=ce)}
            for nm in (True, False) for ce in (1, 2)]
    ctx.explore("large-scopes", big)
    dbase = dict(clustering=True, cluster_every=1, n_particles=24, d=2, ess_ratio=1.0, n_total=10 ** 6, target="bimodal", sample="tpcn")
    duo = [{"kind": "duo", "cfg": dict(dbase, **a), "cfg_b": b, "base": ctx.seed, "depth": 4 if th else 3, "shard": [sh, 2]}
           for a, b in (({}, {"target": "gauss"}), ({"cluster_every": 2}, {"cluster_every": 3, "sample": "rwm"}), ({"n_max_clusters": 2}, {"target": "unequal", "normalize": False, "d": 1}))
           for sh in range(2)]
    ctx.explore("two-samplers-interleaved", duo)
    from mc import session as _s2
    xb = dict(n_particles=24, d=2, n_total=72, eval="scalar", clustering=True, target="bimodal")
    ctx.explore("resume-with-other-options", [{"kind": "cross", "cfg": xb, "pair": list(pr), "base": ctx.seed + b} for pr in _s2.CROSS if pr[1].get("clustering", True) for b in ((0, 5) if th else (0,))])
    agg = ctx.explore("cadence-and-resume", c)
