"""C04 - Importance weights follow the balance-heuristic mixture formula.

Exhaustive lattice of stored histories (T iterations, unequal batch sizes, temperatures in every
order, evidence values and log-likelihoods of extreme magnitude) built through the public
StateManager API; every history is evaluated by the real compute_logw_and_logz and compared with
a 60-digit decimal reference written from the formula in the property.
"""
import itertools
from decimal import Decimal as D

import numpy as np

from mc import env
from mc.core import Res
from mc.refmodels import mis
from mc import targets

LEVEL = "exploration"
RULE = ("histories = (T, batch sizes, beta-tuple in every order, logZ-tuple, logL assignment, target beta) enumerated as a full "
        "product inside the stated bounds; each is built on a real StateManager via set/commit and compared with a 60-digit "
        "reference; distinct = distinct history; non-trivial = reference weights non-uniform AND batch sizes not all equal.")
ASSUMPTIONS = ["floating tolerance 64*eps*(magnitude of the largest exponent argument) + 1e-12 on log-weights",
               "log-likelihoods finite (|logL| <= 1e6), logZ_t finite (|logZ| <= 1e3)"]

LOGL = [-1e6, -700.0, -10.0, 0.0, 3.0, 700.0, 1e6]
BETAS = [0.0, 0.25, 0.5, 1.0]
LOGZ = [-1e3, -1.0, 0.0, 5.0, 1e3]
TARGETS = [0.0, 0.3, 1.0]
SHIFTS = [-1e3, 0.5, 1e3]
EPS = 2.220446049250313e-16


def build(batches, betas, logzs):
    from tempest.state_manager import StateManager

    st = StateManager(1)
    for b, be, lz in zip(batches, betas, logzs):
        st.update_current({"logl": np.array(b, dtype=float), "beta": float(be), "logz": float(lz)})
        st.commit_current_to_history()
    return st


def _tol(batches, betas, logzs, beta):
    m = max(abs(l) for b in batches for l in b)
    scale = max(abs(bt) * m + abs(lz) for bt, lz in zip(betas, logzs)) + abs(beta) * m + 1.0
    return 64 * EPS * scale + 1e-12


def check_history(res, case, batches, betas, logzs, beta, deep):
    key_case = dict(case, batches=[list(map(float, b)) for b in batches], betas=list(betas), logzs=list(logzs), beta=beta, kind="one")
    st = build(batches, betas, logzs)
    try:
        lw, lz = st.compute_logw_and_logz(beta, normalize=False)
        lwn, lz2 = st.compute_logw_and_logz(beta)
    except Exception as e:
        res.violate(f"formula:raises:{type(e).__name__}", f"compute_logw_and_logz raised {e!r}", key_case)
        return
    res.evals += 1
    N = sum(len(b) for b in batches)
    ref_lw, ref_lz = mis.logw_decimal(batches, betas, logzs, beta)
    tol = _tol(batches, betas, logzs, beta)
    lw = np.asarray(lw, dtype=float)
    if lw.shape != (N,) or not np.all(np.isfinite(lw)):
        res.violate("formula:finite", f"unnormalised log-weights not finite / wrong shape: {lw}", key_case)
        return
    err = max(abs(D(float(a)) - r) for a, r in zip(lw, ref_lw))
    if err > tol:
        res.violate("formula:logw", f"log-weight differs from beta*logL - log sum_t (n_t/N) exp(beta_t logL - logZ_t) by {float(err):.3g} (tol {tol:.3g}); got {lw.tolist()} ref {[float(r) for r in ref_lw]}", key_case)
    if abs(D(float(lz)) - ref_lz) > tol or lz != lz2 and abs(lz - lz2) > tol:
        res.violate("formula:logz", f"logZ {lz!r} differs from log mean exp(logw) = {float(ref_lz)!r}", key_case)
    wn = np.exp(np.asarray(lwn, dtype=float))
    ref_w = mis.normalised_decimal(ref_lw)
    if not np.all(np.isfinite(lwn)) or abs(float(wn.sum()) - 1.0) > 1e-12 + 4 * N * tol:
        res.violate("formula:normalised", f"normalised weights do not sum to one / not finite: sum={wn.sum()!r} logw={np.asarray(lwn).tolist()}", key_case)
    werr = max(abs(float(a) - float(r)) for a, r in zip(wn, ref_w))
    if werr > 1e-9 + 1e4 * tol * 0 + tol:
        res.violate("formula:weights", f"normalised weights differ from reference by {werr:.3g}", key_case)
    sizes = [len(b) for b in batches]
    nonuni = max(float(r) for r in ref_w) - min(float(r) for r in ref_w) > 1e-6
    res.outcome((tuple(map(tuple, batches)), tuple(betas), tuple(logzs), beta), nontrivial=nonuni and len(set(sizes)) > 1)
    if not deep:
        return
    # (3b) the caller's numpy error state may change how floating-point events are reported, never the values
    from mc import forms as fm
    for sname, (okind, val) in fm.under_errstates(lambda: build(batches, betas, logzs).compute_logw_and_logz(beta, normalize=False)):
        res.evals += 1
        if okind == "raised":
            res.bump("errstate_raises")
        elif not fm.same(val[0], lw, rtol=1e-12, atol=tol) or not fm.same(val[1], lz, rtol=1e-12, atol=tol):
            res.violate("formula:errstate", f"with numpy error state {sname} in force the log-weights / logZ are {np.asarray(val[0]).tolist()} / {val[1]!r}, under the default state {lw.tolist()} / {lz!r}", dict(key_case, errstate=sname))
            break
    T = len(batches)
    # (4) order of iterations must not matter
    offs = np.cumsum([0] + sizes)
    for perm in itertools.permutations(range(T)):
        if perm == tuple(range(T)):
            continue
        stp = build([batches[i] for i in perm], [betas[i] for i in perm], [logzs[i] for i in perm])
        lwp, lzp = stp.compute_logw_and_logz(beta, normalize=False)
        back = np.concatenate([lw[offs[i]:offs[i + 1]] for i in perm])
        res.evals += 1
        if np.max(np.abs(np.asarray(lwp) - back)) > 2 * tol or abs(lzp - lz) > 2 * tol:
            res.violate("formula:order", f"weights depend on the order of iterations (perm {perm}): {np.asarray(lwp).tolist()} vs {back.tolist()}", dict(key_case, perm=list(perm)))
            break
    # (5) likelihood rescaling
    for c in SHIFTS:
        sts = build([[l + c for l in b] for b in batches], betas, [lz_ + bt * c for lz_, bt in zip(logzs, betas)])
        lws, lzs = sts.compute_logw_and_logz(beta)
        res.evals += 1
        tol_c = _tol([[l + c for l in b] for b in batches], betas, [lz_ + bt * c for lz_, bt in zip(logzs, betas)], beta) + tol
        ws = np.exp(np.asarray(lws))
        if np.max(np.abs(ws - wn)) > 1e-9 + 2 * tol_c or abs((lzs - lz) - beta * c) > 2 * tol_c:
            res.violate("formula:shift", f"shift c={c}: weights change by {np.max(np.abs(ws - wn)):.3g}, logZ shifts by {lzs - lz!r} instead of {beta * c!r}", dict(key_case, c=c))
            break


def run_block(case):
    """One (sizes, betas) block: all logZ tuples x logL assignments x target betas."""
    res = Res()
    sizes, betas = case["sizes"], case["betas"]
    T = len(sizes)
    N = sum(sizes)
    if T <= 2:
        logz_tuples = list(itertools.product(LOGZ, repeat=T))
    else:  # strength-2 orthogonal array over 5 symbols: (a, b, a+b, a+2b)
        logz_tuples = [tuple(LOGZ[i] for i in ((a, b, (a + b) % 5, (a + 2 * b) % 5)[:T])) for a in range(5) for b in range(5)]
        if case.get("lean"):  # quick tier: one Latin transversal (every symbol once per position)
            logz_tuples = logz_tuples[case["lean"] - 1::5][:5]
    if N <= case["full_n"]:
        logl_vecs = list(itertools.product(LOGL, repeat=N))
    else:  # cyclic patterns: every slot sees every symbol, every adjacent pair sees 3 strides
        logl_vecs = [tuple(LOGL[(o + s * i) % 7] for i in range(N)) for o in range(7) for s in ((1, 2, 3) if not case.get("lean") else (case["lean"],))]
    offs = np.cumsum([0] + sizes)
    k = 0
    for lzs in logz_tuples:
        for lv in logl_vecs:
            batches = [list(lv[offs[i]:offs[i + 1]]) for i in range(T)]
            for beta in TARGETS:
                k += 1
                deep = (k % case["deep_every"] == 0)
                check_history(res, case, batches, betas, lzs, beta, deep)
    res.states += len(logz_tuples) * len(logl_vecs)
    if case.get("sample"):
        res.sample({"sizes": sizes, "betas": betas, "logZ_tuples": len(logz_tuples), "logL_vectors": len(logl_vecs), "first": [list(logl_vecs[1]), list(logz_tuples[1])]})
    return res


def run_one(case):
    res = Res()
    check_history(res, {"kind": "one"}, case["batches"], case["betas"], case["logzs"], case["beta"], True)
    return res


def run_posterior(case):
    """(6) the same values through Sampler.posterior(return_logw=True, trim_importance_weights=False)."""
    from tempest import Sampler

    res = Res()
    sizes, betas, logzs = case["sizes"], case["betas"], case["logzs"]
    s = Sampler(targets.pt_affine, targets.ll_gauss, n_dim=1, n_particles=2, clustering=False)
    rng = np.random.RandomState(3)
    batches = []
    for n, b, z in zip(sizes, betas, logzs):
        u = (np.arange(n)[:, None] + 1.0 + len(batches)) / 9.0
        x = np.array([targets.pt_affine(ui) for ui in u])
        ll = np.array([targets.ll_gauss(xi) * case["scale"] for xi in x])
        batches.append(ll)
        s.state.update_current({"u": u, "x": x, "logl": ll, "beta": b, "logz": z})
        s.state.commit_current_to_history()
    out = s.posterior(return_logw=True, trim_importance_weights=False)
    x, w, ll, lw = out
    res.evals += 1
    ref_lw, _ = mis.logw_decimal(batches, betas, logzs, 1.0)
    ref_w = [float(v) for v in mis.normalised_decimal(ref_lw)]
    if len(w) != sum(sizes) or np.max(np.abs(np.asarray(w) - ref_w)) > 1e-9 or abs(np.sum(w) - 1) > 1e-12:
        res.violate("posterior:weights", f"posterior() weights differ from the reference mixture weights: {np.asarray(w).tolist()} vs {ref_w}", case)
    if len(lw) == len(w) and np.max(np.abs(np.exp(np.asarray(lw)) - ref_w)) > 1e-9:
        res.violate("posterior:logw", "posterior(return_logw=True) log-weights are not the log of the reference weights", case)
    res.outcome(("post", tuple(sizes), tuple(betas), tuple(logzs), case["scale"]), nontrivial=len(set(sizes)) > 1)
    return res


def run_ladder(case):
    """Size ladder: one structured history per rung, N*T from 2^10 up to the stated bound (size-triggered code paths such as
    blocked evaluation are invisible to small-scope enumeration), against the float reference evaluated block-free."""
    res = Res()
    T, n_t = case["T"], case["n_t"]
    sizes = [n_t + (t % 3) for t in range(T)]           # unequal batch sizes
    betas = [min(1.0, (t / max(1, T - 1)) ** 2) for t in range(T)]
    logzs = [-0.7 * b * 5.0 - 0.1 * t for t, b in enumerate(betas)]
    N = sum(sizes)
    g = np.arange(N, dtype=float)
    logl = -6.0 * ((g * 0.6180339887) % 1.0) ** 2 - 0.001 * (g % 7)
    from tempest.state_manager import StateManager
    st = StateManager(1)
    o = 0
    batches = []
    for t in range(T):
        b = logl[o:o + sizes[t]]
        batches.append(b)
        st.update_current({"logl": b, "beta": betas[t], "logz": logzs[t]})
        st.commit_current_to_history()
        o += sizes[t]
    for beta in (0.3, 1.0):
        lw, lz = st.compute_logw_and_logz(beta, normalize=False)
        lwn, _ = st.compute_logw_and_logz(beta)
        res.evals += 1
        ref_lw, ref_lz = mis.logw_float(batches, betas, logzs, beta)
        cc = dict(case, beta=beta)
        err = float(np.max(np.abs(np.asarray(lw) - ref_lw)))
        if err > 1e-9 or abs(lz - ref_lz) > 1e-9:
            res.violate("ladder:formula", f"history with T={T}, N={N} (N*T={N * T:.3g}): log-weights differ from the mixture formula by {err:.3g}, logZ by {abs(lz - ref_lz):.3g}", cc)
        wn = np.exp(np.asarray(lwn))
        wr = mis.weights_float(ref_lw)
        if abs(wn.sum() - 1.0) > 1e-9 or np.max(np.abs(wn - wr)) > 1e-12 + 1e-9 * wr.max():
            res.violate("ladder:weights", f"history with T={T}, N={N}: normalised weights differ from the reference by {np.max(np.abs(wn - wr)):.3g}", cc)
        res.outcome(("ladder", T, n_t, beta), nontrivial=True)
    res.states += 1
    res.sample({"ladder_rung": {"T": T, "N": N, "N*T": N * T}}, cap=1)
    return res


# ------------------------------------------------------------------------------------- typed histories, several live objects
ILOGL = [-700, -10, 0, 3, 700]
ILOGZ = [-5, 0, 7]
SCALAR_SPELL = {"float": float, "int": int, "np.float64": np.float64, "np.float32": np.float32, "np.int64": np.int64, "0-d array": lambda v: np.array(float(v))}
ARRAY_SPELL = {"f64": lambda b: np.array(b, dtype=float), "i64": lambda b: np.array(b, dtype=np.int64), "i32": lambda b: np.array(b, dtype=np.int32),
               "f32": lambda b: np.array(b, dtype=np.float32), "list": lambda b: [float(v) for v in b], "int-list": lambda b: [int(v) for v in b],
               "readonly": lambda b: _ro(np.array(b, dtype=float)), "strided": lambda b: np.array([v for x in b for v in (x, -1.0)], dtype=float)[::2]}


def _ro(a):
    a.setflags(write=False)
    return a


def build_typed(batches, betas, logzs, aspell, bspell, zspell):
    from tempest.state_manager import StateManager

    st = StateManager(1)
    for b, be, lz in zip(batches, betas, logzs):
        bb = SCALAR_SPELL[bspell](be) if (bspell not in ("int", "np.int64") or float(be) in (0.0, 1.0)) else float(be)
        st.update_current({"logl": ARRAY_SPELL[aspell](b), "beta": bb, "logz": SCALAR_SPELL[zspell](lz)})
        st.commit_current_to_history()
    return st


def _compare(res, key, msg, st, batches, betas, logzs, beta, cc, single=False):
    try:
        lw, lz = st.compute_logw_and_logz(beta, normalize=False)
        lwn, _ = st.compute_logw_and_logz(beta)
    except Exception as e:
        res.violate(f"{key}:raises:{type(e).__name__}", f"{msg}: compute_logw_and_logz raised {e!r}", cc)
        return False
    res.evals += 1
    ref_lw, ref_lz = mis.logw_float([np.array(b, dtype=float) for b in batches], [float(b) for b in betas], [float(z) for z in logzs], beta)
    ref_lw, ref_lz = [D(float(v)) for v in ref_lw], D(float(ref_lz))
    tol = _tol(batches, betas, logzs, beta) * (2.0 ** 29 if single else 1.0) + 1e-9 * (1 if single else 0)  # single-precision input: single-precision answer
    lw = np.asarray(lw, dtype=float)
    N = sum(len(b) for b in batches)
    if lw.shape != (N,) or not np.all(np.isfinite(lw)):
        res.violate(f"{key}:finite", f"{msg}: log-weights not finite / wrong shape: {lw.tolist()}", cc)
        return False
    err = max(abs(D(float(a)) - r) for a, r in zip(lw, ref_lw))
    if err > tol or abs(D(float(lz)) - ref_lz) > tol:
        res.violate(f"{key}:formula", f"{msg}: log-weights / logZ differ from the mixture formula by {float(err):.3g} / {float(abs(D(float(lz)) - ref_lz)):.3g} (tol {tol:.3g}); "
                    f"history batches={batches} betas={betas} logz={logzs}, target beta={beta}", cc)
        return False
    wn = np.exp(np.asarray(lwn, dtype=float))
    if abs(float(wn.sum()) - 1.0) > 1e-12 + 4 * N * tol:
        res.violate(f"{key}:normalised", f"{msg}: normalised weights sum to {wn.sum()!r}", cc)
        return False
    return True


def run_typed(case):
    """The same (integer-valued) history stored through every legal spelling of its entries: integer / float32 / read-only / strided / list
    log-likelihood batches, Python and numpy scalars of every kind for beta and logZ.  Reference: the decimal mixture formula."""
    res = Res()
    sizes, betas = case["sizes"], case["betas"]
    N = sum(sizes)
    offs = np.cumsum([0] + sizes)
    only = case.get("only")
    for zi, logzs in enumerate(itertools.product(ILOGZ, repeat=len(sizes))):
        for o in range(len(ILOGL)):
            vec = [ILOGL[(o + 2 * i) % len(ILOGL)] for i in range(N)]
            batches = [vec[offs[t]:offs[t + 1]] for t in range(len(sizes))]
            for aspell in ARRAY_SPELL:
                for bspell, zspell in (("float", "float"), ("int", "int"), ("np.float64", "np.int64"), ("np.float32", "np.float32"), ("np.int64", "float"), ("0-d array", "0-d array"), ("float", "int")):
                    if (zi + o) % 3 and aspell not in ("f64", "i64") and not only:
                        continue  # the rarer array spellings on every third history
                    tag = [list(logzs), o, aspell, bspell, zspell]
                    if only and only != tag:
                        continue
                    cc = dict(case, only=tag)
                    for beta in TARGETS:
                        try:
                            st = build_typed(batches, betas, logzs, aspell, bspell, zspell)
                        except Exception as e:
                            res.violate(f"typed:build:{type(e).__name__}", f"storing a history with logl as {aspell}, beta as {bspell}, logz as {zspell} raised {e!r}", cc)
                            break
                        ok = _compare(res, f"typed:{aspell}/{bspell}/{zspell}", f"history stored with log-likelihood batches as {aspell}, beta as {bspell}, logZ as {zspell}",
                                      st, batches, list(betas), list(logzs), beta, cc, single=("32" in aspell + bspell + zspell))
                        res.outcome((tuple(sizes), tuple(betas), logzs, o, aspell, bspell, zspell, beta), nontrivial=aspell != "f64" or bspell != "float" or zspell != "float")
                        if not ok:
                            break
    res.states += 1
    return res


def run_objects(case):
    """Several StateManager objects alive in one process, holding different histories of one shape: every ordered query sequence of
    length <= 3 over them (no state change in between).  Each answer must be the formula applied to the history of the object asked."""
    res = Res()
    sizes, betas = case["sizes"], case["betas"]
    N = sum(sizes)
    offs = np.cumsum([0] + sizes)
    hists = []
    for h in range(3):
        vec = [LOGL[(2 + h + (1 + h) * i) % 7] for i in range(N)]
        hists.append(([vec[offs[t]:offs[t + 1]] for t in range(len(sizes))], [LOGZ[(h + 2 * t) % 5] for t in range(len(sizes))]))
    seqs = [q for r in (2, 3) for q in itertools.product(range(3), repeat=r) if len(set(q)) > 1]
    if case.get("only"):
        seqs = [tuple(case["only"])]
    for q in seqs:
        objs = [build(b, betas, z) for b, z in hists]  # all three alive before the first query
        for step, k in enumerate(q):
            beta = TARGETS[(step + k) % len(TARGETS)] if case["vary_beta"] else 1.0
            cc = dict(case, only=list(q[: step + 1]))
            res.trans += 1
            ok = _compare(res, "objects", f"three StateManagers alive (same batch sizes {sizes} and temperatures {betas}, different log-likelihoods and logZ); queries so far on objects {list(q[:step])}, now object {k}",
                          objs[k], hists[k][0], list(betas), hists[k][1], beta, cc)
            if not ok:
                break
        res.outcome((tuple(sizes), tuple(betas), q, case["vary_beta"]), nontrivial=True)
    res.states += 1
    return res


_MEMCHILD = r"""
import sys, json, resource
sys.path.insert(0, %(verif)r)
from mc import env
import numpy as np
from tempest.state_manager import StateManager
T, n = %(T)d, %(n)d
st = StateManager(1)
rng_l = np.cos(np.arange(T * n) * 0.7368) * 3.0 - 1.0
betas = np.linspace(0.0, 1.0, T)
for t in range(T):
    st.update_current({"logl": rng_l[t * n:(t + 1) * n].copy(), "beta": float(betas[t]), "logz": float(-0.01 * t)})
    st.commit_current_to_history()
# reference in row blocks (never builds the N x T table)
N = T * n
lw_ref = np.empty(N)
for a in range(0, N, 4096):
    l = rng_l[a:a + 4096]
    b = l[:, None] * betas[None, :] - (-0.01 * np.arange(T))[None, :] + np.log(n / N)
    lw_ref[a:a + 4096] = l * 1.0 - np.logaddexp.reduce(b, axis=1)
lz_ref = float(np.logaddexp.reduce(lw_ref) - np.log(N))
vm = [int(x.split()[1]) for x in open('/proc/self/status') if x.startswith('VmSize')][0] * 1024
resource.setrlimit(resource.RLIMIT_AS, (vm + %(slack)d, vm + %(slack)d))
try:
    lw, lz = st.compute_logw_and_logz(1.0, normalize=False)
    print(json.dumps({"outcome": "value", "dlogw": float(np.max(np.abs(np.asarray(lw) - lw_ref))), "dlogz": float(abs(float(lz) - lz_ref))}))
except MemoryError:
    print(json.dumps({"outcome": "MemoryError"}))
"""


def run_memlimit(case):
    """Environment fault: the process cannot allocate the samples-by-iterations table (address-space limit a little above the current footprint).
    Raising MemoryError is an acceptable answer; returning weights or an evidence that differ from the formula is not."""
    import json
    import os
    import subprocess
    import sys

    res = Res()
    code = _MEMCHILD % {"verif": os.path.dirname(os.path.dirname(os.path.abspath(__file__))), "T": case["T"], "n": case["n"], "slack": case["slack_mib"] << 20}
    r = subprocess.run([sys.executable, "-W", "ignore", "-c", code], capture_output=True, text=True, timeout=900)
    res.evals += 1
    try:
        out = json.loads(r.stdout.strip().splitlines()[-1])
    except Exception:
        res.bump("memlimit_child_unusable")
        res.extra["memlimit_child_stderr"] = (r.stderr or "")[-200:]
        return res
    res.bump("memlimit:" + out["outcome"])
    res.outcome(("memlimit", case["T"], case["n"], case["slack_mib"], out["outcome"]), nontrivial=True)
    if out["outcome"] == "value" and (out["dlogw"] > 1e-8 or out["dlogz"] > 1e-8):
        res.violate("memlimit:wrong-values", f"history of {case['T']} iterations x {case['n']} particles under an address-space limit {case['slack_mib']} MiB above the footprint: log-weights differ from the formula by "
                    f"{out['dlogw']:.3g}, logZ by {out['dlogz']:.3g} (a MemoryError would have been an acceptable answer)", dict(case))
    return res


KINDS = {"memlimit": run_memlimit, "typed": run_typed, "objects": run_objects, "ladder": run_ladder, "block": run_block, "one": run_one, "posterior": run_posterior}


def plan(ctx):
    th = ctx.thorough
    cases = []
    Tmax = 4 if th else 3
    for T in range(1, Tmax + 1):
        size_alpha = [1, 2, 3] if T <= 3 else [1, 2]
        for sizes in itertools.product(size_alpha, repeat=T):
            for betas in itertools.product(BETAS, repeat=T):
                N = sum(sizes)
                lean = 0
                if not th and T == 3:
                    if len(set(sizes)) == 1 and (hash((sizes, betas)) + ctx.seed) % 4 != 0:
                        continue
                    lean = 1 + (hash((sizes, betas)) + ctx.seed) % 3
                if th and T == 4:
                    lean = 1 + (hash((sizes, betas)) + ctx.seed) % 3
                cases.append({"kind": "block", "sizes": list(sizes), "betas": list(betas), "lean": lean,
                              "full_n": (3 if th else 2) if T > 1 else 3, "deep_every": 7 if th else 17,
                              "sample": len(cases) in (50, 400)})
    ctx.bounds.update({"T_max": Tmax, "batch_sizes": [1, 2, 3], "betas": BETAS, "logZ": LOGZ, "logL": LOGL, "targets": TARGETS,
                       "blocks": len(cases), "equal-size T=3 blocks subsampled in quick": not th})
    if not th:
        ctx.notes.append("quick: T<=2 complete; T=3: every unequal-size (sizes,beta-tuple) block with a 5-tuple logZ transversal x 7 cyclic logL vectors (rotated by VERIF_SEED); equal-size T=3 blocks every 4th beta-tuple")
    ctx.explore("history-lattice", cases, chunksize=8)
    post = []
    for sizes in ([2, 1], [1, 3, 2], [3, 3]):
        for scale in (1.0, 50.0):
            T = len(sizes)
            post.append({"kind": "posterior", "sizes": sizes, "betas": [0.0, 0.4, 1.0][:T] if T == 3 else [0.0, 1.0], "logzs": [0.0, -1.5, -2.5][:T], "scale": scale})
    ctx.explore("posterior-accessor", post)
    shapes = [([1], [0.0]), ([3], [1.0]), ([2, 1], [0.0, 1.0]), ([1, 3], [1.0, 0.0]), ([2, 2], [0.0, 0.5]), ([1, 2, 3], [0.0, 0.25, 1.0])] + ([([3, 1, 2], [1.0, 0.0, 0.5]), ([1, 1, 1, 2], [0.0, 0.0, 0.5, 1.0])] if th else [])
    ctx.explore("typed-histories", [{"kind": "typed", "sizes": sz, "betas": bt} for sz, bt in shapes])
    ctx.explore("several-live-objects", [{"kind": "objects", "sizes": sz, "betas": bt, "vary_beta": vb} for sz, bt in shapes for vb in (False, True)])
    ctx.bounds.update({"typed_array_spellings": list(ARRAY_SPELL), "typed_scalar_spellings": list(SCALAR_SPELL), "live_objects": 3, "query_sequences_len": [2, 3]})
    ctx.explore("memory-limited-process", [{"kind": "memlimit", "T": 150, "n": 2000, "slack_mib": sl} for sl in (200, 120)], parallel=False)
    rungs = [(4, 64), (16, 256), (64, 1024), (160, 820)] + ([(160, 1700), (400, 700)] if th else [])
    ctx.bounds.update({"size_ladder_NxT": [T * (T * n + T) for T, n in rungs]})
    ctx.explore("size-ladder", [{"kind": "ladder", "T": T, "n_t": n} for T, n in rungs], parallel=False)
