"""C12 - run() postconditions and the posterior()/evidence() contract.

Every terminal state of every run of a deviation-bounded tree over a covering array of the
option lattice x n_total is checked against the reference MIS model; then ALL 2^4 flag
combinations of posterior() x trimming parameters x scripted resampling offsets are executed
and their return values checked for arity, equal lengths, normalisation and row alignment.
"""
import itertools
import math

import numpy as np

from mc import env
from mc.core import Res
from mc.tape import OwnedRandom
from mc import targets, lattice
from mc.pipeline import Probe, deviation_tree, TARGETS
from mc.monitors import terminal_errors
from mc.refmodels import mis

LEVEL = "model_checking"
RULE = ("terminal states of all runs with <=D tape deviations per configuration (covering array x n_total); on each terminal state the full "
        "product posterior(resample, trim, return_blobs, return_logw) x (ess_trim, bins_trim) x scripted offsets is executed; "
        "a state = one terminal history; non-trivial = posterior call whose weights are non-uniform before resampling and which trimmed at least one row.")
ASSUMPTIONS = ["row alignment of log-weights is checked up to the common normalisation constant (difference to the reference log-weight of the same particle is constant over rows)",
               "runs that raise are left to C18"]

OFFSETS = [0.0, 0.137, 0.5, 0.731, 1.0 - 2.0 ** -53]
TRIMS = [(0.5, 10), (0.9, 1000), (0.99, 10), (0.99, 1000)]


def posterior_errors(p, quick_offsets):
    """All posterior() option combinations on a completed probe. Yields (key, msg, detail)."""
    s = p.sampler
    cfg = p.cfg
    have_blobs = cfg["eval"] in ("blobs", "poolobj_blobs")
    f = TARGETS[cfg["target"]]
    batches, betas, logzs = mis.history_of(p.state)
    lw_ref, _ = mis.logw_float(batches, betas, logzs, 1.0)
    xs = np.concatenate(p.state._history["x"])
    ref_by_x = {}
    for xi, lwi in zip(xs, lw_ref):
        ref_by_x[xi.tobytes()] = lwi
    N = len(xs)
    n_calls = 0
    stats = {"calls": 0, "nontrivial": 0}
    for rs, trim, rb, rl in itertools.product([False, True], repeat=4):
        for (et, bt) in (TRIMS if trim else [(0.99, 1000)]):
            for u0 in (quick_offsets if rs else [None]):
                def h(t, *a, **k):
                    return u0 if not (a or k) else OwnedRandom.PASS
                det = dict(resample=rs, trim=trim, return_blobs=rb, return_logw=rl, ess_trim=et, bins_trim=bt, u0=u0)
                with OwnedRandom(2, handlers=({"random": h, "random_sample": h} if rs else {})):
                    try:
                        out = s.posterior(resample=rs, trim_importance_weights=trim, return_blobs=rb, return_logw=rl, ess_trim=et, bins_trim=bt)
                    except Exception as e:
                        yield (f"posterior:raises:{type(e).__name__}", f"posterior({det}) raised {e!r}", det)
                        continue
                stats["calls"] += 1
                arity = 3 + (1 if (rb and have_blobs) else 0) + (1 if rl else 0)
                if not isinstance(out, tuple) or len(out) != arity:
                    yield ("posterior:arity", f"posterior({det}) returned {len(out) if isinstance(out, tuple) else type(out)} values, documented {arity}", det)
                    continue
                x, w, ll = out[0], np.asarray(out[1]), out[2]
                bl = out[3] if (rb and have_blobs) else None
                lw = out[-1] if rl else None
                n = len(x)
                lens = {"x": len(x), "weights": len(w), "logl": len(ll)}
                if bl is not None:
                    lens["blobs"] = len(bl)
                if lw is not None:
                    lens["logw"] = len(lw)
                if len(set(lens.values())) != 1:
                    yield ("posterior:lengths:" + "+".join(k for k, v in lens.items() if v != n), f"posterior({det}) returned arrays of different lengths {lens}", det)
                    continue
                if bl is not None:
                    want_shape = np.shape(p.state.get_history("blobs", flat=True))[1:]
                    if np.shape(bl)[1:] != want_shape:
                        yield ("posterior:blob-shape", f"posterior({det}) returned blobs of shape {np.shape(bl)} although every stored particle carries a blob of shape {want_shape}", det)
                        continue
                if n == 0 or np.any(w < 0) or not np.all(np.isfinite(w)) or abs(float(w.sum()) - 1.0) > 1e-12 * max(1, n) + 1e-12:
                    yield ("posterior:weights", f"posterior({det}) weights are not a probability vector (n={n}, sum={w.sum()!r})", det)
                if rs and not np.all(w == w[0]):
                    yield ("posterior:uniform", f"posterior({det}) weights not uniform after resampling", det)
                if not trim and not rs and n != N:
                    yield ("posterior:untrimmed-length", f"posterior({det}) returned {n} of {N} stored particles although nothing was trimmed", det)
                bad = None
                diffs = []
                for i in range(n):
                    if not (f(x[i]) == ll[i]):
                        bad = f"row {i}: logl {ll[i]!r} is not the likelihood of x ({f(x[i])!r})"
                        break
                    if bl is not None and not (targets.blob_expected(x[i], cfg) == float(np.ravel(bl[i])[0])):
                        bad = f"row {i}: blob does not belong to x"
                        break
                    r = ref_by_x.get(np.asarray(x[i]).tobytes())
                    if r is None:
                        bad = f"row {i}: x is not a stored particle"
                        break
                    if lw is not None:
                        diffs.append(float(lw[i]) - r)
                if bad:
                    yield ("posterior:row-alignment", f"posterior({det}): {bad}", det)
                elif lw is not None and diffs and (max(diffs) - min(diffs)) > 1e-8:
                    yield ("posterior:row-alignment:logw", f"posterior({det}): log-weights do not refer row by row to the returned particles (spread {max(diffs) - min(diffs):.3g})", det)
                if not rs and bad is None:
                    # non-resampled weights must be proportional to the reference weights of the same rows
                    r = np.array([ref_by_x[np.asarray(xi).tobytes()] for xi in x])
                    wr = np.exp(r - r.max())
                    wr /= wr.sum()
                    if np.max(np.abs(wr - w)) > 1e-9:
                        yield ("posterior:weights-value", f"posterior({det}) weights are not the (renormalised) mixture weights of the returned rows", det)
                if trim and n < N and (w.max() - w.min()) > 1e-9:
                    stats["nontrivial"] += 1
    yield ("__stats__", stats, None)


def _run_one(res, cfg, base, symbols, quick_offsets, case_for_replay):
    p = Probe(cfg, symbols=symbols, base=base)
    p.run()
    res.evals += 1
    res.traces += 1
    res.trans += p.events
    if p.exc is not None or not p.completed:
        res.bump("aborted_runs")
        return p
    res.states += 1
    for key, msg in terminal_errors(p):
        res.violate(key, msg + f" [cfg={cfg} symbols={symbols}]", case_for_replay)
    for key, msg, det in posterior_errors(p, quick_offsets):
        if key == "__stats__":
            res.evals += msg["calls"]
            res.bump("posterior_calls", msg["calls"])
            res.bump("posterior_nontrivial", msg["nontrivial"])
            continue
        res.violate(key, msg + f" [cfg={cfg}]", case_for_replay)
    hb = tuple(round(float(b), 12) for b in p.state._history["beta"])
    res.outcome(("terminal", hb, p.state.get_current("calls")), nontrivial=True)
    return p


def run_pipe(case):
    res = Res()
    cfg = case["cfg"]

    def one(symbols):
        cc = dict(kind="pipe1", cfg=cfg, base=case["base"], symbols={str(k): v for k, v in symbols.items()}, offsets=case["offsets"])
        p = _run_one(res, cfg, case["base"], symbols, case["offsets"], cc)
        return p.iters

    n, capped = deviation_tree(one, alphabet=("a", "b"), max_dev=case["max_dev"], max_runs=case.get("max_runs"))
    if capped:
        res.bump("run_cap_hit")
    res.sample({"cfg": cfg, "runs": n}, cap=1)
    return res


def run_pipe1(case):
    res = Res()
    _run_one(res, case["cfg"], case["base"], case.get("symbols") or {}, case["offsets"], case)
    return res


def run_threshold(case):
    """Boundary values of the termination test: a scout run records the posterior ESS after every iteration at beta=1;
    the run is then repeated with n_total just above each recorded ESS (same tape) and must not stop short of it."""
    res = Res()
    cfg = dict(case["cfg"])
    trail = []

    def mon(ev):
        if ev.step == "commit" and abs(1.0 - float(ev.probe.state._current["beta"])) < 1e-4:
            b, be, lz = mis.history_of(ev.probe.state)
            trail.append(mis.ess_float(mis.logw_float(b, be, lz, 1.0)[0]))

    scout = Probe(dict(cfg, n_total=case["scout_total"]), base=case["base"], monitors=[mon], max_iters=case.get("max_iters", 400))
    scout.run()
    res.evals += 1
    res.traces += 1
    if scout.exc is not None:
        res.bump("aborted_runs")
        return res
    targets_ = []
    for e in trail:
        nt = int(math.floor(e)) + 1
        if nt not in targets_ and nt > cfg["n_particles"]:
            targets_.append(nt)
    chosen = targets_[-case["max_targets"]:] if case.get("from_end") else targets_[: case["max_targets"]]
    for nt in chosen:
        if case.get("only_nt") and case["only_nt"] != nt:
            continue
        p = Probe(dict(cfg, n_total=nt), base=case["base"], max_iters=case.get("max_iters", 400))
        p.run()
        res.evals += 1
        res.states += 1
        res.trans += p.events
        cc = dict(case, only_nt=nt)
        if p.exc is not None:
            res.bump("aborted_runs")
            continue
        for key, msg in terminal_errors(p):
            res.violate("threshold:" + key, msg + f" [n_total={nt} chosen just above a posterior ESS the run passes through; cfg={cfg}]", cc)
        res.outcome(("threshold", tuple(sorted((k, repr(v)) for k, v in cfg.items())), nt), nontrivial=True)
    res.sample({"cfg": cfg, "ess_trail": [round(e, 3) for e in trail[:6]], "n_total_values": chosen}, cap=1)
    return res


def run_session12(case):
    """Same sampler object through save / load / iterate sequences: posterior() weights, evidence and trimming must refer to the CURRENT history."""
    from mc import session
    return session.run_case(case, lambda: [], key_pred=lambda k: k.startswith("session:posterior") or k.startswith("session:evidence") or k.startswith("session:trim"))


def run_resume_larger(case):
    """run(n_total=N1, save_every=1), then a fresh sampler resumes a checkpoint asking for 3*N1: the post-conditions are those of the request."""
    from mc.refmodels.fs import MemFS

    res = Res()
    cfg = dict(case["cfg"])
    fs = MemFS()
    a = Probe(dict(cfg, save_every=1, output_dir="/memfs/r", output_label="a"), base=case["base"], fs=fs)
    a.run()
    res.evals += 1
    if a.exc is not None:
        res.bump("aborted_runs")
        return res
    cks = sorted((k for k in fs.files if k.endswith(".state")), key=lambda s_: (s_.endswith("_final.state"), len(s_), s_))
    for path in [cks[0], cks[len(cks) // 2], cks[-1]]:
        big = dict(cfg, n_total=3 * cfg["n_total"])
        q = Probe(big, base=case["base"] + 1, fs=fs, max_iters=400)
        q.run(resume_state_path=path)
        res.evals += 1
        res.states += 1
        res.trans += q.events
        cc = dict(case, path=path)
        if q.exc is not None:
            res.violate(f"resume:raises:{type(q.exc).__name__}", f"run(n_total={big['n_total']}, resume_state_path={path}) raised {q.exc!r}", cc)
            continue
        for key, msg in terminal_errors(q):
            res.violate("resume-larger-n_total:" + key, msg + f" [fresh sampler resumed from {path} (written by run(n_total={cfg['n_total']})) with n_total={big['n_total']}; cfg={cfg}]", cc)
        res.outcome(("resume-larger", path, tuple(sorted((k, repr(v)) for k, v in cfg.items()))), nontrivial=True)
    res.traces += 1
    return res


def run_duo12(case):
    """Two samplers alive in one process, every interleaving of iterations and queries: posterior() weights / evidence / trimmed posterior of each
    refer to its own stored history after every operation."""
    from mc import session
    return session.run_duo(case, lambda: [], oracle=session.accessor_oracle,
                           key_pred=lambda k: k.startswith("session:posterior") or k.startswith("session:evidence") or k.startswith("session:trim"))


def run_cross12(case):
    """A checkpoint written under options A resumed by a fresh sampler with options B and a larger n_total: run() post-conditions and the
    posterior()/evidence() contract on the resumed sampler."""
    from mc import session

    def post(p):
        out = list(terminal_errors(p))
        before = len(p.viol)
        session.accessor_oracle(session._Shim(p), "run(resume_state_path=...)")
        out += [(k, m) for k, m, _ in p.viol[before:]]
        return out

    return session.run_cross_resume(case, lambda: [], post=post)


KINDS = {"cross": run_cross12, "duo": run_duo12, "session": run_session12, "resume_larger": run_resume_larger, "pipe": run_pipe, "pipe1": run_pipe1, "threshold": run_threshold}

FACTORS = [
    ("sample", ["tpcn", "rwm"]),
    ("resample", ["mult", "syst"]),
    ("clu", ["off", "on", "on-nonorm", "on-cap2"]),
    ("vv", [None, 0.5]),
    ("eval", ["vec", "scalar", "blobs", "poolobj_blobs"]),
    ("boundary", ["none", "per0", "ref1", "per0ref1"]),
    ("n_total", [48, 96, 160]),
    ("ess_ratio", [1.5, 2.0, 4.0]),
    ("target", ["gauss", "bimodal", "sharp"]),
]


def cfg_of(row):
    c = {k: row[k] for k in ("sample", "resample", "vv", "eval", "boundary", "n_total", "ess_ratio", "target")}
    clu = row["clu"]
    c["clustering"] = clu != "off"
    c["normalize"] = clu != "on-nonorm"
    c["n_max_clusters"] = 2 if clu == "on-cap2" else None
    return c


def plan(ctx):
    th = ctx.thorough
    strength = 3 if th else 2
    rows = lattice.covering_array(FACTORS, strength=strength, seed=ctx.seed)
    cov, tot = lattice.count_covered(rows, FACTORS, strength)
    offs = OFFSETS if th else OFFSETS[1:4:2] + OFFSETS[-1:]
    cases = [{"kind": "pipe", "cfg": cfg_of(r), "base": ctx.seed, "max_dev": 1, "max_runs": 40 if th else 12, "offsets": offs} for r in rows]
    ctx.bounds.update({"configs": len(rows), "covering_strength": strength, "tuples_covered": f"{cov}/{tot}", "max_deviations": 1,
                       "posterior_flag_combinations": 16, "trim_params": TRIMS, "resample_offsets": offs})
    thr = [{"kind": "threshold", "cfg": dict(sample=k, resample=r, clustering=cl, n_particles=npart, eval="scalar"), "base": ctx.seed, "scout_total": 12 * npart, "max_targets": 12 if th else 6}
           for k in ("tpcn", "rwm") for r in ("mult", "syst") for cl in (False, True) for npart in ((16, 32) if th else (16,))]
    # scale: the termination test at the END of long runs (the samples-by-iterations table reaches 3e5 entries in quick, 2.3e6 in thorough)
    thr += [{"kind": "threshold", "cfg": dict(sample="tpcn", resample="mult", clustering=False, n_particles=32, eval="vec", d=2, ess_ratio=2.0), "base": ctx.seed, "scout_total": 32 * 100, "max_targets": 2, "from_end": True, "max_iters": 2000}]
    if th:
        thr += [{"kind": "threshold", "cfg": dict(sample="tpcn", resample="mult", clustering=False, n_particles=64, eval="vec", d=2, ess_ratio=er), "base": ctx.seed, "scout_total": 64 * 190, "max_targets": 3, "from_end": True, "max_iters": 2000} for er in (2.0, 8.0)]
    ctx.explore("termination-threshold", thr)
    scfg = dict(n_particles=8, d=1, ess_ratio=1.0, n_total=10 ** 6, eval="blobs", clustering=False)
    ses = [{"kind": "session", "cfg": dict(scfg, resample=rs), "base": ctx.seed, "depth": 9, "patterns": [sh, 4]} for rs in ("mult", "syst") for sh in range(4)]
    ses += [{"kind": "resume_larger", "cfg": dict(sample=k, clustering=cl, n_particles=16, n_total=48), "base": ctx.seed} for k in ("tpcn", "rwm") for cl in (False, True)]
    ctx.explore("sessions-and-resume", ses)
    duo = [{"kind": "duo", "cfg": dict(scfg, **a), "cfg_b": b, "base": ctx.seed, "depth": 4 if th else 3, "shard": [sh, 2]}
           for a, b in (({}, {}), ({"resample": "syst"}, {"eval": "scalar", "vv": 0.5}), ({"d": 2, "clustering": True}, {"d": 2, "clustering": True, "target": "bimodal"})) for sh in range(2)]
    ctx.explore("two-samplers-interleaved", duo)
    from mc import session as _s2
    from mc.pipeline import LARGE
    # thin supports (whole prior batches rejected and drawn again) with every blob layout: posterior() rows must still be whole records
    thin = [{"kind": "pipe1", "cfg": dict(n_particles=npart, d=2, n_total=4 * npart, target=t, eval=ev, blob_form=bf, sample=k, clustering=False), "base": ctx.seed + b, "offsets": offs[:2]}
            for npart in ((4, 12) if th else (4,)) for t in ("sliver", "hole") for ev in ("blobs", "poolobj_blobs") for bf in (None, "two", "vector", "matrix") for k in ("tpcn", "rwm") for b in ((0, 1, 2) if th else (0,))
            if th or (ev == "blobs" and bf != "two") or (ev == "poolobj_blobs" and bf is None and k == "tpcn")]
    ctx.explore("thin-support-and-blob-layouts", thin)
    ctx.explore("large-scopes", [{"kind": "pipe1", "cfg": c, "base": ctx.seed, "offsets": offs[:2]} for c in LARGE])
    ctx.explore("resume-with-other-options", [{"kind": "cross", "cfg": dict(n_particles=16, d=2, n_total=48, eval="scalar", clustering=False), "pair": list(pr), "base": ctx.seed + b} for pr in _s2.CROSS for b in ((0, 5) if th else (0,))])
    agg = ctx.explore("terminal-states", cases)
    if agg.extra.get("run_cap_hit"):
        ctx.cap(f"per-configuration run cap hit in {agg.extra['run_cap_hit']} configurations (0-deviation run and the earliest 1-deviation runs complete)")
