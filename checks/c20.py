"""C20 - Weight utilities: ESS bounds, trimming contract, affine-invariant volume metric.

Exhaustive enumeration of all weight vectors over a dynamic-range alphabet up to length 5 plus
structured long vectors, against exact rational references; the trimming contract is checked
through identity samples (so alignment is observable); the volume metric is checked on a lattice
of invertible affine maps.
"""
import itertools
import math
from fractions import Fraction as F

import numpy as np

from mc import env
from mc.core import Res

LEVEL = "exploration"
RULE = ("ESS: every vector over {0,1e-300,1e-12,1e-3,1,3,1e8,1e300} of length 1..5 with positive sum + structured long vectors, x scale factors, "
        "x a reversal/rotation permutation, against the rational (sum w)^2/sum w^2; trimming: the same vectors (length<=4/5) x ess fractions x bin counts; "
        "volume metric: point sets x weight vectors x affine-map lattice (rotation x diagonal scaling with condition 1..1e6, translation); "
        "distinct = distinct input; non-trivial = non-uniform weights (ESS/trim) or non-identity map with both regularisation branches inactive (volume).")
ASSUMPTIONS = ["ESS relative tolerance 1e-9 against the rational value; bounds slack N*2^-40", "volume metric: affine-invariance tolerance max(1e-9, 1e-14*cond^2) relative (x100 with a translation of 1e3)",
               "volume metric: inputs on which the rank-regularisation or the +-1e6 clip is active on either side are outside the invariance premise (counted)"]

ALPHA = [0.0, 1e-300, 1e-12, 1e-3, 1.0, 3.0, 1e8, 1e300]
SCALES = [1e-200, 0.5, 7.0, 1e200]


def ess_exact(w):
    fw = [F(float(x)) for x in w]
    s = sum(fw)
    q = sum(x * x for x in fw)
    return (s * s) / q


def run_ess(case):
    from tempest.tools import effective_sample_size, compute_ess

    res = Res()
    L = case["len"]
    vecs = [v for v in itertools.product(ALPHA, repeat=L - len(case["prefix"]))]
    only = case.get("only")
    for tail in vecs:
        w = tuple(case["prefix"]) + tail
        if only is not None:
            w = tuple(only)
        if sum(w) <= 0:
            continue
        N = len(w)
        cc = {"kind": "ess", "len": N, "prefix": [], "only": list(w)}
        ref = ess_exact(w)
        wa = np.array(w, dtype=float)
        with np.errstate(all="ignore"):
            e = float(effective_sample_size(wa.copy()))
        res.evals += 1
        nonuni = len(set(x for x in w)) > 1
        res.outcome(w, nontrivial=nonuni)
        slack = N * 2.0 ** -40
        if not (math.isfinite(e) and 1 - slack <= e <= N + slack):
            res.violate("ess:bounds", f"effective_sample_size({list(w)}) = {e!r} outside [1,{N}]", cc)
        elif abs(F(e) - ref) > ref * F(1, 10 ** 9):
            res.violate("ess:value", f"effective_sample_size({list(w)}) = {e!r}, exact {float(ref)!r}", cc)
        if not nonuni and abs(e - N) > slack:
            res.violate("ess:uniform", f"uniform weights of length {N}: ESS {e!r}", cc)
        for c in SCALES:
            cw = wa * c
            if not np.all(np.isfinite(cw)) or np.any((cw == 0) != (wa == 0)) or not math.isfinite(float(np.sum(cw))):
                continue
            with np.errstate(all="ignore"):
                ec = float(effective_sample_size(cw))
            res.evals += 1
            ref_c = ess_exact(cw)
            if not math.isfinite(ec) or abs(F(ec) - ref_c) > ref_c * F(1, 10 ** 9):
                res.violate("ess:scale", f"ESS({c}*w) = {ec!r} but exact {float(ref_c)!r} (w={list(w)})", dict(cc, c=c))
                break
        if N <= 3:
            # the caller's numpy error state may only change how floating-point events are REPORTED, never the value
            from mc import forms as fm
            for sname, (kind, val) in fm.under_errstates(lambda: (float(effective_sample_size(wa.copy())), float(compute_ess(np.log(wa))) if np.all(wa > 0) else None)):
                res.evals += 1
                if kind == "raised":
                    res.bump("errstate_raises")
                    continue
                ce0 = None
                if np.all(wa > 0):
                    with np.errstate(all="ignore"):
                        ce0 = float(compute_ess(np.log(wa)))
                if not fm.same(val[0], e, rtol=1e-12) or (val[1] is not None and not fm.same(val[1], ce0, rtol=1e-12)):
                    res.violate("ess:errstate", f"with numpy error state {sname} in force effective_sample_size/compute_ess({list(w)}) = {val}, under the default state {e!r}/{ce0!r}", dict(cc, errstate=sname))
                    break
        if N > 1:
            with np.errstate(all="ignore"):
                er = float(effective_sample_size(wa[::-1].copy()))
            if abs(er - e) > 1e-9 * max(1.0, e):
                res.violate("ess:permutation", f"ESS changes under reversal: {e!r} vs {er!r} (w={list(w)})", cc)
        pos = wa[wa > 0]
        if len(pos) == N:  # compute_ess takes log-weights; its value is ESS/N
            with np.errstate(all="ignore"):
                ce = float(compute_ess(np.log(wa)))
            res.evals += 1
            if not math.isfinite(ce) or abs(F(ce * N) - ref) > ref * F(1, 10 ** 8):
                if float(ref) - 1 > 1e-6 or not math.isfinite(ce) or not (1 - slack <= ce * N <= N + slack):
                    res.violate("ess:compute_ess", f"compute_ess(log {list(w)})*N = {ce * N!r}, exact {float(ref)!r}", cc)
        if only is not None:
            break
    res.states += 1
    return res


def trim_check(res, w, essf, bins, cc, samples2d=False):
    from tempest.tools import trim_weights

    wa = np.array(w, dtype=float)
    N = len(wa)
    ids = np.arange(N)
    samp = np.stack([ids, ids * 10], axis=1) if samples2d else ids
    try:
        with np.errstate(all="ignore"):
            so, wo = trim_weights(samp.copy(), wa.copy(), ess=essf, bins=bins)
    except Exception as e:
        res.violate(f"trim:raises:{type(e).__name__}", f"trim_weights raised {e!r} for w={list(w)[:8]} ess={essf} bins={bins}", cc)
        return
    res.evals += 1
    kept = np.asarray(so)[:, 0] if samples2d else np.asarray(so)
    wo = np.asarray(wo, dtype=float)
    if len(kept) != len(wo) or len(kept) == 0:
        res.violate("trim:lengths", f"{len(kept)} samples but {len(wo)} weights returned (w={list(w)[:8]})", cc)
        return
    if samples2d and not np.array_equal(np.asarray(so)[:, 1], kept * 10):
        res.violate("trim:sample-rows", "rows of a 2-D sample array were not kept whole", cc)
    kept = kept.astype(int)
    if np.any(np.diff(kept) <= 0):
        res.violate("trim:order", f"kept samples not in original order: {kept.tolist()[:10]}", cc)
        return
    if np.any(wo < 0) or abs(float(wo.sum()) - 1.0) > 1e-12:
        res.violate("trim:normalised", f"returned weights are not a probability vector (sum {wo.sum()!r})", cc)
    wn = wa / wa.sum()
    dropped = np.setdiff1d(np.arange(N), kept)
    if len(dropped) and wn[dropped].max() >= wn[kept].min():
        res.violate("trim:upper-set", f"kept set is not {{i: w_i >= threshold}}: dropped weight {wn[dropped].max()!r} >= kept weight {wn[kept].min()!r} (w={list(w)[:8]})", cc)
    want = wn[kept] / wn[kept].sum()
    if np.max(np.abs(want - wo)) > 1e-12:
        res.violate("trim:alignment", f"returned weights are not the (renormalised) weights of the returned samples (w={list(w)[:8]}, kept={kept.tolist()[:8]})", cc)
    e_all = 1.0 / np.sum(wn ** 2)
    e_kept = 1.0 / np.sum(want ** 2)
    if e_kept / e_all < essf - 1e-12:
        res.violate("trim:ess-fraction", f"ESS(kept)/ESS(all) = {e_kept / e_all!r} < requested {essf} (w={list(w)[:8]})", cc)
    return len(kept)


def run_trim(case):
    res = Res()
    L = case["len"]
    only = case.get("only")
    for tail in itertools.product(ALPHA, repeat=L - len(case["prefix"])):
        w = tuple(case["prefix"]) + tail
        if only is not None:
            w = tuple(only)
        if sum(w) <= 0 or not math.isfinite(sum(w)):
            continue
        for essf in case["ess"]:
            for bins in case["bins"]:
                cc = {"kind": "trim", "len": len(w), "prefix": [], "only": list(w), "ess": [essf], "bins": [bins]}
                k = trim_check(res, w, essf, bins, cc, samples2d=(bins == 10))
                res.outcome((w, essf, bins), nontrivial=k is not None and k < len(w))
        if only is not None:
            break
    res.states += 1
    return res


def long_vectors():
    out = []
    for N in (10, 100, 1000, 10000):
        out.append((f"uniform{N}", np.ones(N)))
        for r in (0.99, 0.5, 1e-3):
            out.append((f"geom{r}/{N}", r ** np.arange(N, dtype=float)))
        d = np.ones(N) * 1e-6
        d[N // 3] = 1.0
        out.append((f"dominant{N}", d))
        ell = -0.5 * np.linspace(-4, 4, N) ** 2
        for b in (0.1, 1.0, 10.0):
            out.append((f"temper{b}/{N}", np.exp(b * ell)))
        t = np.ones(N)
        t[::3] = 2.0
        t[1::7] = 0.0
        out.append((f"ties{N}", t))
    return out


def run_long(case):
    from tempest.tools import effective_sample_size, compute_ess

    res = Res()
    for name, w in long_vectors():
        if case.get("only") and case["only"] != name:
            continue
        cc = {"kind": "long", "only": name}
        N = len(w)
        ref = ess_exact(w)
        with np.errstate(all="ignore"):
            e = float(effective_sample_size(w.copy()))
        res.evals += 1
        if not (1 - N * 2.0 ** -40 <= e <= N * (1 + 2.0 ** -40)) or abs(F(e) - ref) > ref * F(1, 10 ** 9):
            res.violate("ess:long", f"ESS of {name} = {e!r}, exact {float(ref)!r}", cc)
        if np.all(w > 0):
            ce = float(compute_ess(np.log(w))) * N
            if abs(F(ce) - ref) > ref * F(1, 10 ** 8):
                res.violate("ess:long:compute_ess", f"compute_ess of {name} *N = {ce!r}, exact {float(ref)!r}", cc)
        for essf in (0.5, 0.9, 0.99, 0.999):
            for bins in (2, 10, 1000):
                if N >= 10000 and bins == 1000 and not case.get("thorough"):
                    continue
                k = trim_check(res, w, essf, bins, dict(cc, ess=essf, bins=bins))
                res.outcome((name, essf, bins), nontrivial=k is not None and k < N)
    res.states += 1
    return res


# ------------------------------------------------------------------------------------- volume
def _points(n, d):
    def vdc(i, b):
        x, f = 0.0, 1.0 / b
        while i:
            x += f * (i % b)
            i //= b
            f /= b
        return x
    primes = [2, 3, 5, 7, 11, 13, 17, 19, 23, 29, 31, 37, 41, 43, 47, 53, 59, 61]
    U = np.array([[vdc(i + 1, primes[k]) for k in range(d)] for i in range(n)])
    from scipy.stats import norm
    return norm.ppf(0.02 + 0.96 * U)


def _premise(x, w):
    """True iff neither the rank-regularisation nor the clip branch of the metric is active."""
    w = w / w.sum()
    mu = (x * w[:, None]).sum(0)
    xc = x - mu
    cov = xc.T @ (xc * w[:, None])
    if np.linalg.matrix_rank(cov) < x.shape[1]:
        return False, "rank"
    d2 = np.sum(xc @ np.linalg.inv(cov) * xc, axis=1)
    if np.any(np.abs(d2 - x.shape[1]) >= 1e6):
        return False, "clip"
    return True, ""


def _maps(d):
    out = []
    angles = [0.0, 0.3, 1.1]
    for cond in (1.0, 10.0, 1e3, 1e6):
        for ang in angles:
            R = np.eye(d)
            if d >= 2:
                c, s = math.cos(ang), math.sin(ang)
                G = np.eye(d)
                G[0, 0], G[0, 1], G[1, 0], G[1, 1] = c, -s, s, c
                R = G
                if d >= 3:
                    G2 = np.eye(d)
                    G2[1, 1], G2[1, 2], G2[2, 1], G2[2, 2] = c, -s, s, c
                    R = G @ G2
            D = np.diag(np.logspace(0, math.log10(cond), d)) if d > 1 else np.array([[cond]])
            for scale in (1.0, 1e-3) + ((1e-60, 1e60, 1e-150) if (cond in (1.0, 1e3) and ang == 0.3) else ()):  # uniform rescaling to extreme units keeps the condition number
                out.append((cond, R @ D * scale))
            if d == 1 or ang != 0.0:
                pass
    return out


def run_volume(case):
    from tempest.tools import volume_variation

    res = Res()
    d, n = case["d"], case["n"]
    x = _points(n, d)
    ws = {"uniform": np.ones(n), "geom": 0.9 ** np.arange(n, dtype=float), "temper": np.exp(-0.5 * np.sum(x ** 2, 1) * 0.7), "none": None}
    for wname, w in ws.items():
        with np.errstate(all="ignore"):
            base = float(volume_variation(x, None if w is None else w.copy()))
        res.evals += 1
        cc = dict(case, w=wname)
        wv = np.ones(n) if w is None else w
        ok, why = _premise(x, wv.copy())
        if not ok:
            res.bump(f"premise_out:{why}")
            continue
        if not (math.isfinite(base) and base >= 0):
            res.violate("vv:range", f"volume_variation = {base!r} for non-degenerate input (d={d}, n={n}, w={wname})", cc)
            continue
        if w is not None:
            for c in (1e-200, 0.5, 7.0, 1e200):
                with np.errstate(all="ignore"):
                    vc = float(volume_variation(x, w * c))
                res.evals += 1
                if abs(vc - base) > 1e-9 * max(1.0, base):
                    res.violate("vv:weight-scale", f"volume_variation changes under weight rescaling by {c}: {base!r} -> {vc!r}", dict(cc, c=c))
        for cond, A in _maps(d):
            unit = float(np.abs(A).max())
            for b in (0.0, 1e3 if 1e-4 < unit < 1e7 else 1e3 * unit):  # a translation the doubles can carry next to the spread of the data
                y = x @ A.T + b
                ok2, why2 = _premise(y, wv.copy())
                if not ok2:
                    res.bump(f"premise_out:{why2}")
                    continue
                with np.errstate(all="ignore"):
                    v2 = float(volume_variation(y, None if w is None else w.copy()))
                res.evals += 1
                # forward error of inverting a covariance of condition cond^2: ~eps*cond^2 (measured 3e-17*cond^2 on the pinned tree);
                # a translation by 1e3 costs up to ~1e-10 through the centring
                tol = max(1e-9, 1e-14 * cond * cond) * (100.0 if b else 1.0)
                nontriv = not (cond == 1.0 and b == 0.0 and np.allclose(A, np.eye(d)))
                res.outcome((d, n, wname, cond, round(float(A[0, 0]), 6), b), nontrivial=nontriv)
                if not math.isfinite(v2) or abs(v2 - base) > tol * max(1.0, base):
                    res.violate("vv:affine", f"volume_variation not affine invariant: {base!r} -> {v2!r} under a map with condition {cond}, shift {b} (d={d}, n={n}, w={wname}, tol={tol:.2g})", dict(cc, cond=cond, b=b))
    res.states += 1
    res.sample({"d": d, "n": n, "maps": len(_maps(d)), "weights": list(ws)}, cap=1)
    return res


def run_threads20(case):
    """Two overlapping calls of a weight utility from two threads: every schedule with one preemption (see mc/threads.py).  Both results must be
    what the calls return when they do not overlap."""
    from mc import threads
    from tempest.tools import volume_variation, trim_weights, effective_sample_size

    res = Res()
    fn = case["fn"]
    xa, xb = _points(12, 2), _points(12, 2)[::-1] * 3.0 + 1.0
    wa = np.array([1, 2, 5, 1, 1, 3, 1, 2, 1, 1, 4, 1], dtype=float)
    wb = wa[::-1].copy() ** 2
    if fn == "vv":
        fA, fB = (lambda: float(volume_variation(xa.copy(), wa.copy()))), (lambda: float(volume_variation(xb.copy(), wb.copy())))
    elif fn == "trim":
        fA = lambda: [np.asarray(t, dtype=float).tolist() for t in trim_weights(np.arange(12), wa.copy(), ess=0.9, bins=10)]
        fB = lambda: [np.asarray(t, dtype=float).tolist() for t in trim_weights(np.arange(12), wb.copy(), ess=0.5, bins=10)]
    else:
        fA, fB = (lambda: float(effective_sample_size(wa.copy()))), (lambda: float(effective_sample_size(wb.copy())))
    with np.errstate(all="ignore"):
        nlines, refA = threads.line_events(fA)
        refB = fB()
        for k in range(1, nlines + 1):
            if case.get("k") is not None and case["k"] != k:
                continue
            rA, rB, where = threads.one_preemption(fA, fB, k)
            res.evals += 1
            res.trans += 1
            res.outcome(("threads", fn, k), nontrivial=True)
            if rA != refA or rB != refB:
                res.violate(f"threads:{fn}:one-preemption", f"{fn} interrupted before its library line #{k} ({where}) by a complete call on other data in another thread: results {rA} / {rB}, without overlap {refA} / {refB}", dict(case, k=k))
                break
    res.states += nlines
    res.traces += 1
    return res


def run_session20(case):
    """posterior(trim) on one sampler object across save / load / iterate sequences: the trimming contract w.r.t. the CURRENT weights."""
    from mc import session
    return session.run_case(case, lambda: [], key_pred=lambda k: k.startswith("session:trim"))


def run_callsites(case):
    """Every call of trim_weights made by the library during real runs (Trainer, posterior) must satisfy the trimming contract
    for the arguments it was given (whatever extra options a call site passes)."""
    import tempest.tools as tt
    import tempest.steps.train as tr
    from mc.pipeline import Probe
    from mc.tape import OwnedRandom

    res = Res()
    orig = tt.trim_weights
    calls = []

    def spy(samples, weights, *a, **k):
        w_in = np.array(weights, dtype=float, copy=True)
        out = orig(samples, weights, *a, **k)
        essf = k.get("ess", a[0] if a else 0.99)
        calls.append((w_in, np.array(out[0], copy=True), np.array(out[1], copy=True), float(essf), np.array(samples, copy=True)))
        return out

    tt.trim_weights = spy
    old_tr = tr.trim_weights
    tr.trim_weights = spy
    try:
        p = Probe(case["cfg"], base=case["base"])
        p.run()
        if p.completed:
            with OwnedRandom(3):
                p.sampler.posterior()
                p.sampler.posterior(ess_trim=0.9, bins_trim=10)
    finally:
        tt.trim_weights = orig
        tr.trim_weights = old_tr
    res.evals += 1
    res.traces += 1
    if p.exc is not None:
        res.bump("aborted_runs")
    for k, (w_in, s_out, w_out, essf, s_in) in enumerate(calls):
        res.states += 1
        res.trans += 1
        cc = dict(case, call=k)
        wn = w_in / w_in.sum()
        if s_in.ndim != 1 or not np.array_equal(s_in, np.arange(len(s_in))):
            continue  # contract is checked through identity samples (what both call sites pass)
        kept = np.asarray(s_out).astype(int)
        want = wn[kept] / wn[kept].sum()
        tag = f"trim_weights call #{k} of a real run (n={len(w_in)}, ess={essf}, cfg={case['cfg']})"
        if len(kept) != len(w_out) or np.max(np.abs(want - w_out)) > 1e-12:
            res.violate("callsite:alignment", f"{tag}: returned weights are not the renormalised input weights of the returned samples", cc)
            continue
        dropped = np.setdiff1d(np.arange(len(wn)), kept)
        if len(dropped) and wn[dropped].max() >= wn[kept].min():
            res.violate("callsite:upper-set", f"{tag}: kept set is not a threshold set of the weights it was given", cc)
        e_all, e_kept = 1.0 / np.sum(wn ** 2), 1.0 / np.sum(want ** 2)
        if e_kept / e_all < essf - 1e-12:
            res.violate("callsite:ess-fraction", f"{tag}: ESS(kept)/ESS(all) = {e_kept / e_all!r} < {essf}", cc)
        res.outcome(("callsite", len(w_in), len(kept), essf), nontrivial=len(kept) < len(w_in))
    res.sample({"cfg": case["cfg"], "trim_calls_observed": len(calls)}, cap=1)
    return res


# ------------------------------------------------------------------------------------- input forms and call history
FALPHA = [0.0, 0.25, 1.0, 3.0, 1024.0]
FORMS_W = {"ess": ("strided", "revstrided", "readonly", "f32", "f16", "i64", "i32", "longdouble"),
           "trim": ("strided", "revstrided", "f32", "longdouble"),
           "vvw": ("list", "tuple", "strided", "revstrided", "readonly", "f32", "i64", "i32"),
           "vvx": ("list", "tuple", "strided", "revstrided", "fortran", "readonly", "f32", "i64", "i32")}


def _bits(r):
    return tuple(np.asarray(t, dtype=float).tobytes() + str(np.shape(t)).encode() for t in (r if isinstance(r, tuple) else (r,)))


def run_forms(case):
    """The same numbers presented as another legal container / dtype / memory layout must give the same answer, and a call repeated after
    a call with other arguments must give bit-identical results (no state carried between calls)."""
    from mc import forms as fm
    from tempest.tools import effective_sample_size, compute_ess, increment_logz, trim_weights, volume_variation

    res = Res()
    fn = case["fn"]
    seqs = [tuple(s) for s in case["seq"]] if case.get("seq") else None
    vecs = seqs if seqs else [v for L in case["lens"] for v in itertools.product(FALPHA, repeat=L) if sum(v) > 0]
    only_form = case.get("form")
    prev = None
    x = _points(10, 2) if fn in ("vvw", "vvx") else None
    xq = np.round(x * 64) / 64 if x is not None else None  # exactly representable in float32/float16 is not needed for x: tolerance oracle

    held = []  # raw objects returned by the library (a caller may keep them while making further calls)

    def call(w, kind):
        """returns a tuple of arrays / floats for (fn, w) with w presented as `kind`"""
        wa = np.array(w, dtype=float)
        with np.errstate(all="ignore"):
            if fn == "ess":
                out = [float(effective_sample_size(fm.form(wa, kind)))]
                if np.all(wa > 0) and np.all(np.log2(wa) == np.round(np.log2(wa))):
                    lw = fm.form(np.log2(wa), kind)  # integral log-weights: exact in every dtype (-2 and 10 fit float16)
                    out += [float(compute_ess(lw)), float(increment_logz(lw))]
                return tuple(out)
            if fn == "trim":
                so, wo = trim_weights(np.arange(len(wa)), fm.form(wa, kind), ess=case["ess"], bins=case["bins"])
                held.append((so, wo))
                return (np.array(so, dtype=float), np.array(wo, dtype=float))
            if fn == "vvw":
                if len(wa) != len(xq):
                    wa = np.resize(wa, len(xq))
                return (float(volume_variation(xq.copy(), fm.form(wa, kind))),)
            if fn == "vvx":
                k = int(sum(wa)) % 7 + 1
                xs = np.round(xq * k)
                xs[:, 1] += np.arange(len(xs)) % 3  # integer-valued, non-degenerate point set depending on w
                return (float(volume_variation(fm.form(xs, kind), None)),)
        raise KeyError(fn)

    for w in vecs:
        if fn in ("vvw",) and (len(w) < 3 or np.count_nonzero(np.resize(np.array(w), 10)) < 4):
            continue
        cc0 = {"kind": "forms", "fn": fn, "seq": [list(w)], "ess": case.get("ess"), "bins": case.get("bins")}
        try:
            del held[:]
            ref = call(w, "f64")
        except Exception as e:
            res.violate(f"forms:{fn}:raises:{type(e).__name__}", f"{fn} raised {e!r} for contiguous float64 input {list(w)}", cc0)
            continue
        mine = held[-1] if held else None
        mine_bits = _bits(mine) if mine is not None else None
        res.evals += 1
        if fn == "ess" and abs(F(ref[0]) - ess_exact(w)) > ess_exact(w) * F(1, 10 ** 9):
            res.violate("forms:ess:value", f"effective_sample_size({list(w)}) = {ref[0]!r}", cc0)
        if not only_form or str(only_form).startswith("errstate:"):
            for sname, (okind, val) in fm.under_errstates(lambda: call(w, "f64")):
                res.evals += 1
                if okind == "raised":
                    res.bump("errstate_raises")
                elif len(val) != len(ref) or any(not fm.same(g, r, rtol=1e-12, atol=1e-15) for g, r in zip(val, ref)):
                    res.violate(f"forms:{fn}:errstate", f"{fn}({list(w)}) = {[np.asarray(g).tolist() for g in val]} with numpy error state {sname} in force, {[np.asarray(r).tolist() for r in ref]} under the default state",
                                dict(cc0, form="errstate:" + sname))
                    break
        for kind in FORMS_W[fn]:
            if only_form and kind != only_form:
                continue
            probe = fm.form(np.array(w, dtype=float), kind)
            if probe is None:
                continue
            cc = dict(cc0, form=kind)
            try:
                got = call(w, kind)
            except Exception as e:
                res.violate(f"forms:{fn}:{kind}:raises:{type(e).__name__}", f"{fn} raised {e!r} when {list(w)} is passed as {kind} (fine as contiguous float64)", cc)
                continue
            res.evals += 1
            rtol = {"f32": 2e-6, "f16": 4e-3}.get(kind, 1e-12) * (10.0 if fn.startswith("vv") else 1.0)
            bad = len(got) != len(ref) or any(not fm.same(g, r, rtol=rtol, atol=rtol * 1e-3) for g, r in zip(got, ref))
            res.outcome((fn, kind, w), nontrivial=len(set(w)) > 1)
            if bad:
                res.violate(f"forms:{fn}:{kind}", f"{fn} gives {[np.asarray(g).tolist() for g in got]} when {list(w)} is passed as {kind}, "
                            f"but {[np.asarray(r).tolist() for r in ref]} as contiguous float64 (rtol {rtol:g})", cc)
        # call history: the previous input again, after this one
        if prev is not None:
            pw, pref = prev
            try:
                again = call(pw, "f64")
            except Exception as e:
                again = ("raised", repr(e))
            res.evals += 1
            res.trans += 1
            if _bits(again) != _bits(pref):
                res.violate(f"history:{fn}", f"{fn}({list(pw)}) returned {[np.asarray(r).tolist() for r in pref]} first and "
                            f"{[np.asarray(r).tolist() if not isinstance(r, str) else r for r in again]} after an intervening call with {list(w)}",
                            {"kind": "forms", "fn": fn, "seq": [list(pw), list(w)], "form": "f64", "ess": case.get("ess"), "bins": case.get("bins")})
            if mine is not None and _bits(mine) != mine_bits:
                res.violate(f"history:{fn}:earlier-result-changed", f"the arrays returned by {fn}({list(w)}) changed while later calls ({list(pw)} and other forms of the same input) were made: "
                            f"now {[np.asarray(t).tolist() for t in mine]}, at return {[np.asarray(r).tolist() for r in ref]}",
                            {"kind": "forms", "fn": fn, "seq": [list(pw), list(w)], "form": "f64", "ess": case.get("ess"), "bins": case.get("bins")})
        prev = (w, ref)
    res.states += 1
    return res


KINDS = {"threads": run_threads20, "forms": run_forms, "session": run_session20, "callsites": run_callsites, "ess": run_ess, "trim": run_trim, "long": run_long, "volume": run_volume}


def plan(ctx):
    th = ctx.thorough
    cases = []
    for L in (1, 2, 3, 4, 5):
        if L <= 3:
            cases.append({"kind": "ess", "len": L, "prefix": []})
        else:
            for a in ALPHA:
                for b in (ALPHA if L == 5 else [None]):
                    cases.append({"kind": "ess", "len": L, "prefix": [a] if b is None else [a, b]})
    ctx.explore("ess-alphabet", cases, chunksize=2)
    tr = []
    for L in (1, 2, 3, 4) + ((5,) if th else ()):
        if L <= 2:
            tr.append({"kind": "trim", "len": L, "prefix": [], "ess": [0.5, 0.9, 0.99, 0.999], "bins": [2, 10, 1000]})
        else:
            for a in ALPHA:
                for b in (ALPHA if L >= 4 else [None]):
                    pre = [a] if b is None else [a, b]
                    bins = [2, 10] + ([1000] if (L == 3 or th) else [])
                    tr.append({"kind": "trim", "len": L, "prefix": pre, "ess": [0.5, 0.9, 0.99, 0.999], "bins": bins})
    tr.append({"kind": "long", "thorough": th})
    ctx.explore("trim-contract", tr)
    vol = [{"kind": "volume", "d": d, "n": n} for d in (1, 2, 3, 5) for n in (d + 2, 10, 50) + ((400,) if th else ())]
    vol += [{"kind": "volume", "d": 16, "n": 10000}, {"kind": "volume", "d": 14, "n": 9400}]  # scale: arrays of more than 2^17 values
    ctx.explore("volume-metric", vol)
    fcs = [{"kind": "forms", "fn": "ess", "lens": [L]} for L in (1, 2, 3, 4)]
    fcs += [{"kind": "forms", "fn": "trim", "lens": [L], "ess": e, "bins": b} for L in (1, 2, 3, 4) for e in (0.5, 0.99) for b in (2, 10)]
    fcs += [{"kind": "forms", "fn": f, "lens": [3, 4] if f == "vvw" else [1, 2, 3]} for f in ("vvw", "vvx")]
    ctx.explore("input-forms-and-call-history", fcs)
    ctx.explore("overlapping-calls-one-preemption", [{"kind": "threads", "fn": f} for f in ("vv", "trim", "ess")])
    scfg = dict(n_particles=8, d=1, ess_ratio=1.0, n_total=10 ** 6, eval="scalar", clustering=False)
    ses = [{"kind": "session", "cfg": scfg, "base": ctx.seed, "depth": 9, "patterns": [sh, 4]} for sh in range(4)]
    ses += [{"kind": "callsites", "cfg": dict(clustering=cl, cluster_every=ce, sample=k, target=t, n_particles=24, n_total=96), "base": ctx.seed}
            for cl, ce in ((False, 1), (True, 1), (True, 2), (True, 3)) for k in ("tpcn", "rwm") for t in ("gauss", "bimodal")]
    ctx.explore("pipeline-call-sites-and-sessions", ses)
    ctx.bounds.update({"alphabet": ALPHA, "max_len": 5, "scales": SCALES, "trim_ess": [0.5, 0.9, 0.99, 0.999], "trim_bins": [2, 10, 1000], "volume_dims": [1, 2, 3, 5], "conditions": [1, 10, 1e3, 1e6]})
    ctx.res.sample({"weights": [1e-300, 3.0, 1e8], "check": "ESS bounds/value/scale/permutation; trim upper-set/alignment/ESS fraction"})
