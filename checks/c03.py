"""C03 - Mutation kernels leave the tempered target invariant (detailed balance).

A. RWM as an exact finite Markov chain: on a lattice of the unit cube with a symmetric finite
   innovation alphabet the REAL one-step kernel is executed from every cell with every innovation
   (and every redraw continuation); the resulting transition matrix must satisfy detailed balance
   w.r.t. exp(beta*logL) for every likelihood landscape, beta, boundary type and cluster.
B. tpCN: the proposal law is EXTRACTED from the real _propose under a scripted tape (gamma
   arguments, centre, innovation matrix), validated against the real return value on the whole
   tape lattice, and the real acceptance factor is compared with the Metropolis-Hastings ratio of
   that law for every ordered pair of grid states.
C. Accept/reject: returned alpha and the accept decision on a lattice of likelihood differences.
D. Boundaries with tpCN: hard walls (no redraw, rejection outside), periodic / reflective folds
   (image-sum detailed balance in one dimension).
"""
import itertools
import math

import numpy as np
from scipy.special import gammaln

from mc import env
from mc.core import Res
from mc.tape import OwnedRandom

LEVEL = "model_checking"
RULE = ("A: states = lattice cells, transitions = (cell, innovation symbol) executed on the real kernel, for every landscape in {0,-1,-3}^M (1-d) / a fixed family (2-d), "
        "beta in {0.25,1}, boundary type per coordinate, cluster; B: all ordered pairs of a 5^d grid per parameter point (d, K, nu, Sigma, mu, sigma), model validated on the "
        "tape lattice g in {0.25,1,4} x z in {-1,0,1}^d; C: lattice of likelihood differences x beta x kernels; D: tape lattice for hard walls, grid pairs with image sums for folds; "
        "non-trivial = chain with a non-flat landscape / pair u != v; distinct by (parameter point, state pair).")
ASSUMPTIONS = ["detailed balance for the RWM kernel uses nothing about the innovation law except symmetry, so a finite symmetric alphabet decides it exactly",
               "tpCN: the marginal proposal density is the multivariate t implied by the recorded gamma arguments and the extracted affine map (validated on the tape lattice)",
               "the adaptation of the step size ACROSS steps is outside the property (each step is checked at fixed sigma)"]

SIG0 = lambda d: 2.38 / math.sqrt(d)  # noqa: E731
ZS1 = [(-2, 1 / 16), (-1, 4 / 16), (0, 6 / 16), (1, 4 / 16), (2, 1 / 16)]


# ===================================================================================== Part A
def _one_step(kern, u, logl_u, ll_fn, ms, assign, beta, per, ref, z, d):
    """One real MCMC step of a single walker with scripted innovation z.  Returns (alpha, proposal seen by prior_transform, #randn calls)."""
    from tempest.mcmc import parallel_mcmc

    calls = [0]
    props = []

    def h_randn(t, *a, **k):
        calls[0] += 1
        return np.array(z, dtype=float) if calls[0] == 1 else np.zeros(d)

    def h_gamma(t, shape=None, scale=1.0, size=None):
        return 1.0

    def pt(uu):
        props.append(np.array(uu, copy=True))
        return np.array(uu, copy=True)

    with OwnedRandom(1, handlers={"randn": h_randn, "gamma": h_gamma, "rand": lambda t, *a, **k: np.full(a, 0.5) if a else 0.5}):
        out = parallel_mcmc(u=u[None, :].copy(), x=u[None, :].copy(), logl=np.array([logl_u]), blobs=None, assignments=np.array([assign]), beta=beta,
                            mode_stats=ms, log_likelihood=ll_fn, prior_transform=pt, n_steps=1, n_max=0, sample=kern, periodic=per, reflective=ref, verbose=False)
    return float(out[5]), props[-1], calls[0]


def run_lattice(case):
    from tempest.modes import ModeStatistics

    res = Res()
    shape = case["shape"]  # cells per coordinate
    d = len(shape)
    bnd = case["bnd"]      # per coordinate 'h','p','r'
    K = case["K"]
    M = int(np.prod(shape))
    hs = [1.0 / m for m in shape]
    s0 = SIG0(d)
    covs = [np.diag([(h / s0) ** 2 for h in hs]), np.diag([(2 * h / s0) ** 2 for h in hs])][:K]
    ms = ModeStatistics(np.full((K, d), 0.5), np.array(covs), np.full(K, 5.0))
    per = [i for i in range(d) if bnd[i] == "p"] or None
    ref = [i for i in range(d) if bnd[i] == "r"] or None
    zs = list(itertools.product(*[ZS1 if d == 1 else ZS1[1:4]] * d)) if d > 1 else [((z,), p) for z, p in ZS1]
    if d > 1:
        zs = [(tuple(zz[0] for zz in comb), float(np.prod([zz[1] for zz in comb]))) for comb in zs]
        tot = sum(p for _, p in zs)
        zs = [(z, p / tot) for z, p in zs]
    cells = list(itertools.product(*[range(m) for m in shape]))
    centre = lambda c: np.array([(c[i] + 0.5) / shape[i] for i in range(d)])  # noqa: E731
    index = {c: n for n, c in enumerate(cells)}

    def cell_of(u):
        c = []
        for i in range(d):
            v = u[i] * shape[i] - 0.5
            r = round(v)
            if abs(v - r) > 1e-9:
                return None
            c.append(int(r))
        return tuple(c)

    landscapes = case["landscapes"]
    for assign in range(K):
        for L in landscapes:
            L = np.asarray(L, dtype=float)
            for beta in case["betas"]:
                def ll_fn(x, L=L):
                    out = []
                    for xx in x:
                        c = cell_of(xx)
                        out.append(L[index[c]] if (c is not None and c in index) else -np.inf)
                    return np.array(out), None

                P = np.zeros((M, M))
                bad = None
                for c in cells:
                    i = index[c]
                    okz, R = [], 0.0
                    for z, p in zs:
                        zz = tuple(zi * (2 if False else 1) for zi in z)
                        alpha, prop, ncalls = _one_step(case["kernel"], centre(c), L[i], ll_fn, ms, assign, beta, per, ref, zz, d)
                        res.evals += 1
                        res.trans += 1
                        if ncalls > 1:
                            R += p  # the kernel refused this innovation and drew again: memoryless loop, renormalise
                            continue
                        cj = cell_of(prop)
                        if cj is None or cj not in index:
                            if alpha != 0.0:
                                bad = f"cell {c}, innovation {z}: proposal {prop.tolist()} left the lattice/cube with acceptance {alpha}"
                            continue
                        okz.append((p, alpha, index[cj]))
                    if R >= 1.0:
                        bad = f"cell {c}: every innovation refused"
                        break
                    for p, a, j in okz:
                        P[i, j] += p / (1.0 - R) * a
                    P[i, i] += 1.0 - P[i].sum()
                cc = dict(case, landscapes=[L.tolist()], betas=[beta], only_assign=assign)
                if case.get("only_assign") is not None and case["only_assign"] != assign:
                    continue
                res.states += M
                if bad:
                    res.violate(f"rwm-lattice:{''.join(bnd)}:escape", bad, cc)
                    continue
                pi = np.exp(beta * (L - L.max()))
                pi /= pi.sum()
                Fm = pi[:, None] * P
                resid = np.abs(Fm - Fm.T).max()
                inv = np.abs(pi @ P - pi).max()
                res.outcome((tuple(shape), tuple(bnd), K, assign, tuple(L.tolist()), beta), nontrivial=len(set(L.tolist())) > 1)
                if resid > 1e-12 or inv > 1e-12:
                    i, j = np.unravel_index(np.argmax(np.abs(Fm - Fm.T)), Fm.shape)
                    kinds = "+".join(sorted(set(bnd)))
                    res.violate(f"rwm-lattice:detailed-balance:boundary={kinds}",
                                f"{case['kernel']} one-step kernel on the {shape} lattice, boundaries {bnd}, beta={beta}, landscape {L.tolist()}: "
                                f"pi_i P_ij - pi_j P_ji = {Fm[i, j] - Fm[j, i]:.3g} for cells {cells[i]}->{cells[j]} (P_ij={P[i, j]:.4f}, P_ji={P[j, i]:.4f}); |pi P - pi| = {inv:.3g}", cc)
    res.traces += 1
    res.sample({"lattice": shape, "boundaries": bnd, "clusters": K, "landscapes": len(landscapes), "innovations": len(zs)}, cap=1)
    return res


# ===================================================================================== Part B
def _grid(d, n):
    pts = np.linspace(0.1, 0.9, n)
    return np.array(list(itertools.product(pts, repeat=d)))


def _mvt_logpdf(v, loc, shape_m, dof, with_q=False):
    d = len(loc)
    Lc = np.linalg.cholesky(shape_m)
    y = np.linalg.solve(Lc, v - loc)
    q = float(y @ y)
    logdet = 2.0 * np.sum(np.log(np.diag(Lc)))
    val = float(gammaln((dof + d) / 2) - gammaln(dof / 2) - 0.5 * d * math.log(dof * math.pi) - 0.5 * logdet - 0.5 * (dof + d) * math.log1p(q / dof))
    return (val, q) if with_q else val


def _sigma_matrix(d, kind):
    if kind == "iso":
        return np.eye(d) * 0.04
    if kind == "corr":
        C = np.full((d, d), 0.8)
        np.fill_diagonal(C, 1.0)
        return C * 0.03
    if kind == "tiny":  # a posterior 1e-6 of the prior range wide: variances below 1e-10 in unit-cube units (exactly representable)
        return np.diag([2.0 ** -40 * (1 + i) for i in range(d)]) + (2.0 ** -42 if d > 1 else 0.0) * (np.ones((d, d)) - np.eye(d))
    if kind == "scales":
        return np.diag(np.logspace(-3, 0, d) if d > 1 else [1e-3]) * 0.05
    raise ValueError(kind)


def _runner(kern, G, ms, assign, beta, per=None, ref=None):
    from tempest.mcmc import TPCNRunner, RWMRunner

    cls = TPCNRunner if kern == "tpcn" else RWMRunner
    n = len(G)
    return cls(G.copy(), G.copy(), np.zeros(n), None, np.full(n, assign, dtype=int), beta, ms,
               lambda x: (np.zeros(len(x)), None), lambda u: u, None, 1, 0, per, ref, False)


def _extract(runner, k, d, g, z, alternate=False):
    rec = []
    vec = []

    def h_gamma(t, shape=None, scale=1.0, size=None):
        rec.append((float(np.ravel(shape)[0]), float(np.ravel(scale)[0])))
        m = int(np.prod(size)) if size is not None else max(np.size(shape), np.size(scale))
        if m <= 1:
            return g if size is None and np.ndim(shape) == 0 and np.ndim(scale) == 0 else np.full(np.broadcast(np.asarray(shape), np.asarray(scale)).shape if size is None else size, g)
        # several mixing variables in ONE proposal: by default they all get the scripted value (the law extracted is then the single-variable
        # law); with alternate=True they get g, 4g, g, 4g ... so that a proposal which really uses them independently becomes visible
        vec.append(m)
        out = np.full(m, float(g))
        if alternate:
            out[1::2] *= 4.0
        return out.reshape(size if size is not None else (m,))

    n_randn = [0]

    def h_randn(t, *a, **kw):
        # a kernel that waits for an in-cube innovation (redraw loop) gets the scripted answer once, then zeros: the wait is finite
        n_randn[0] += 1
        return np.array(z, dtype=float) if n_randn[0] == 1 else np.zeros(len(z))

    with OwnedRandom(1, handlers={"gamma": h_gamma, "randn": h_randn}):
        out = runner._propose(k)
    rec.append(("randn_calls", n_randn[0]))
    if alternate:
        return np.array(out, dtype=float), rec, vec
    return np.array(out, dtype=float), rec


def run_tpcn(case):
    from tempest.modes import ModeStatistics

    res = Res()
    d, K, nu, skind, mukind, sigma = case["d"], case["K"], case["nu"], case["S"], case["mu"], case["sigma"]
    G = _grid(d, 5 if d <= 2 else (3 if d == 3 else 2))
    n = len(G)
    S = _sigma_matrix(d, skind)
    mu = np.full(d, 0.5) if mukind == "centre" else np.full(d, 0.2)
    means = np.array([mu, 1.0 - mu][:K]) if K == 2 else np.array([mu])
    covs = np.array([S, S * 2.5 + np.eye(d) * 1e-3][:K])
    dofs = np.array([nu, 3.0][:K])
    if case.get("int_dof"):  # integer-typed degrees of freedom are a legal way to pass nu = 1, 3, 5 ...
        dofs = np.array([int(nu), 3][:K], dtype=np.int64) if case["int_dof"] == "array" else [int(nu), 3][:K]
    ms = ModeStatistics(means, covs, dofs)
    if case.get("via"):  # the mode statistics reach the kernel through a pickle round trip / a copy (a sampler that was pickled or deep-copied)
        import copy as _copy
        import pickle as _pickle
        ms = {"pickle": lambda o: _pickle.loads(_pickle.dumps(o)), "deepcopy": _copy.deepcopy, "copy": _copy.copy}[case["via"]](ms)
    per = None
    for assign in range(K):
        cc = dict(case, assign=assign)
        # NB: the SAME ModeStatistics object serves both clusters in turn (second use with other labels of equal length);
        # a replay therefore re-executes the whole sequence, never a single cluster in isolation
        r = _runner("tpcn", G, ms, assign, 0.7)
        r.sigmas[:] = sigma
        model = []
        fail = False
        for k in range(n):
            c, rec = _extract(r, k, d, 1.0, np.zeros(d))
            if len(rec) != 2:
                res.violate("tpcn:law-unobservable", f"_propose made {len(rec) - 1} gamma draws (expected exactly one scale-mixture draw)", cc)
                fail = True
                break
            # ... and with the degrees of freedom of that mode: the mixing variable is Gamma((d + nu_label) / 2, .)
            nu_k = float(np.asarray(dofs, dtype=float)[assign])
            if abs(rec[0][0] - 0.5 * (d + nu_k)) > 1e-9 * (1 + nu_k):
                res.violate("tpcn:proposal-dof", f"walker carrying label {assign} of {K} modes (the other modes hold no walker): its mixing variable is drawn with shape {rec[0][0]!r}, "
                            f"mode {assign} has nu={nu_k!r}, i.e. shape (d+nu)/2 = {0.5 * (d + nu_k)!r}", cc)
                fail = True
                break
            # the proposal of a walker is built around the mode of ITS OWN label (also when lower-numbered modes hold no walker)
            c_want = means[assign] + math.sqrt(1.0 - sigma ** 2) * (G[k] - means[assign])
            if per is None and np.max(np.abs(c - c_want)) > 1e-9:
                res.violate("tpcn:proposal-centre", f"walker at u={G[k].tolist()} carries label {assign} of {K} modes (all walkers do; the other modes are empty): its proposal is centred at {c.tolist()}, "
                            f"the pCN centre for mode {assign} (mean {means[assign].tolist()}) is {c_want.tolist()}", cc)
                fail = True
                break
            A1 = np.stack([_extract(r, k, d, 1.0, np.eye(d)[i])[0] - c for i in range(d)], axis=1)
            # validate the extracted affine model on the whole tape lattice
            for g in (0.25, 1.0, 4.0):
                for z in itertools.product((-1.0, 0.0, 1.0), repeat=d):
                    out, rec2 = _extract(r, k, d, g, z)
                    res.evals += 1
                    res.trans += 1
                    pred = c + (A1 @ np.array(z)) / math.sqrt(g)
                    if rec2[-1][1] > 1:
                        continue  # the kernel refused this innovation and redrew: outside the affine model (decided by part D)
                    if rec2[0] != rec[0] or np.max(np.abs(out - pred)) > 1e-11 * (1 + np.max(np.abs(pred))):
                        res.violate("tpcn:model-not-affine", f"real _propose is not c(u) + g^-1/2 A z on the tape lattice (u={G[k].tolist()}, g={g}, z={z})", cc)
                        fail = True
                        break
                if fail:
                    break
            if fail:
                break
            a, th = rec[0]
            if not (a > 0 and th > 0 and np.all(np.isfinite(A1)) and abs(np.linalg.det(A1)) > 0):
                res.violate("tpcn:degenerate-law", f"gamma arguments (shape={a}, scale={th}) / innovation matrix are not a valid scale mixture at u={G[k].tolist()}", cc)
                fail = True
                break
            model.append((c, A1 @ A1.T / (a * th), 2.0 * a))
            res.traces += 1
            # the law just extracted has ONE mixing variable.  If the code draws several in one proposal and uses them independently, its real
            # proposal law is not that law (the variables differ with probability one), whatever the acceptance factor corrects for
            zz = np.ones(d)
            out_alt, _, vec = _extract(r, k, d, 1.0, zz, alternate=True)
            if vec:
                p1, p4 = c + A1 @ zz, c + (A1 @ zz) / 2.0
                if np.max(np.abs(out_alt - p1)) > 1e-9 and np.max(np.abs(out_alt - p4)) > 1e-9:
                    res.violate("tpcn:several-mixing-variables", f"one proposal draws {vec} gamma variables and uses them independently (u={G[k].tolist()}): the proposal is not the single-scale mixture "
                                f"c(u) + s^1/2 A z whose Student-t density the acceptance factor uses (d={d}, K={K}, cluster={assign}, nu={nu}, Sigma={skind})", cc)
                    fail = True
                    break
        if fail:
            continue
        # every ordered pair: code's acceptance factor vs the MH ratio of the extracted law
        worst = (0.0, None)
        for j in range(n):
            v = G[j]
            with np.errstate(all="ignore"):
                rf = np.asarray(r._compute_acceptance_factor(np.tile(v, (n, 1)), np.zeros(n)), dtype=float)
            for k in range(n):
                if k == j:
                    continue
                cu, Su, du = model[k]
                cv, Sv, dv = model[j]
                (lb, qb), (lf, qf) = _mvt_logpdf(G[k], cv, Sv, dv, True), _mvt_logpdf(v, cu, Su, du, True)
                want = lb - lf
                err = abs(rf[k] - want)
                res.evals += 1
                res.states += 1
                # the innovation matrix is extracted as a difference of O(1) numbers (abs. error ~1e-16): its relative error enters the
                # log-density through the Mahalanobis term, hence the second tolerance term
                if err > 1e-8 * (1 + abs(want)) + 2e-12 * (qb + qf) and err > worst[0]:
                    worst = (err, (k, j, float(rf[k]), want))
        res.outcome((d, K, nu, skind, mukind, sigma, assign), nontrivial=True)
        if worst[1] is not None:
            k, j, got, want = worst[1]
            res.violate("tpcn:mh-ratio", f"acceptance factor r(u->v)={got!r} but log Q(v->u) - log Q(u->v) = {want!r} for the proposal law the code draws from "
                        f"(u={G[k].tolist()}, v={G[j].tolist()}, d={d}, K={K}, cluster={assign}, nu={nu}, Sigma={skind}, mu={mukind}, sigma={sigma})", cc)
    res.sample({"d": d, "K": K, "nu": nu, "Sigma": skind, "mu": mukind, "sigma": sigma, "grid_states": n, "ordered_pairs": n * (n - 1)}, cap=1)
    return res


# ===================================================================================== Part C
def run_accept(case):
    from tempest.modes import ModeStatistics
    from tempest.mcmc import parallel_mcmc

    res = Res()
    kern = case["kernel"]
    d = 1
    ms = ModeStatistics(np.array([[0.45]]), np.array([[[0.02]]]), np.array([4.0]))
    u0 = np.array([[0.4]])
    z = 0.35
    deltas = [(-np.inf, 0.0), (-30.0, 0.0), (-1.0, 0.0), (0.0, 0.0), (1.0, 0.0), (30.0, 0.0), (-np.inf, -np.inf), (0.0, -np.inf)]  # (logL', logL)
    # the same differences on top of a large common offset (a likelihood with an additive constant of -1e6 .. 1e9; all values exactly representable):
    # the acceptance probability depends on the difference only
    for off in (-1e6, 1e6, -1e9, 3e4):
        deltas += [(off + dl, off) for dl in (-8.0, -1.0, -0.125, 0.0, 0.125, 1.0, 8.0)]
    for (l1, l0) in deltas:
        for beta in (1e-3, 0.1, 0.5, 1.0):
            for mode in ("alpha", "below", "above"):
                rec = {}

                def ll(x, l1=l1):
                    return np.full(len(x), l1), None

                def h_rand(t, *a, **k):
                    al = rec.get("alpha_pred", 0.5)
                    if mode == "below":
                        return np.full(a, al * (1 - 2.0 ** -30))
                    if mode == "above":
                        return np.full(a, min(al * (1 + 2.0 ** -30), 1 - 2.0 ** -53))
                    return np.full(a, 0.5)

                # predicted alpha from the proposal law (part B formula) for this fixed move
                r0 = _runner(kern, u0, ms, 0, beta)
                v, _ = _extract(r0, 0, 1, 1.0, np.array([z]))
                rfac = float(np.asarray(r0._compute_acceptance_factor(v[None, :], np.zeros(1)))[0])
                with np.errstate(all="ignore"):
                    ap = math.exp(min(700.0, beta * (l1 - l0) + rfac)) if not math.isnan(beta * (l1 - l0)) else float("nan")
                ap = 0.0 if (ap != ap) else min(1.0, ap)
                inside = bool(np.all((v >= 0) & (v <= 1)))
                if not inside:
                    ap = 0.0
                rec["alpha_pred"] = ap
                with OwnedRandom(1, handlers={"gamma": lambda t, shape=None, scale=1.0, size=None: 1.0, "randn": lambda t, *a, **k: np.array([z]), "rand": h_rand}):
                    with np.errstate(all="ignore"):
                        out = parallel_mcmc(u=u0.copy(), x=u0.copy(), logl=np.array([l0]), blobs=None, assignments=np.array([0]), beta=beta, mode_stats=ms,
                                            log_likelihood=ll, prior_transform=lambda uu: np.array(uu, copy=True), n_steps=1, n_max=0, sample=kern, verbose=False)
                res.evals += 1
                res.trans += 1
                res.states += 1
                cc = dict(case, only=[repr(l1), repr(l0), beta, mode])
                alpha = float(out[5])
                moved = not np.array_equal(out[0], u0)
                res.outcome((kern, repr(l1), repr(l0), beta, mode, moved), nontrivial=moved)
                if (ap == 0.0 and alpha != 0.0) or abs(alpha - ap) > 1e-9:  # a move to zero likelihood / outside the cube must have probability exactly 0
                    res.violate(f"accept:alpha:{kern}", f"{kern}: logL {l0}->{l1}, beta={beta}: returned acceptance {alpha!r}, expected min(1, exp(beta*dlogL + r)) = {ap!r}", cc)
                    continue
                if mode == "below" and 0 < ap and not moved:
                    res.violate(f"accept:decision:{kern}", f"{kern}: uniform just below alpha={ap!r} did not accept (logL {l0}->{l1}, beta={beta})", cc)
                if mode == "above" and ap < 1 and moved:
                    res.violate(f"accept:decision:{kern}", f"{kern}: uniform just above alpha={ap!r} accepted (logL {l0}->{l1}, beta={beta})", cc)
                if ap == 0.0 and moved:
                    res.violate(f"accept:decision:{kern}", f"{kern}: moved with zero acceptance probability", cc)
                if moved and not (np.array_equal(out[0][0], v) and out[2][0] == l1):
                    res.violate(f"accept:record:{kern}", f"{kern}: accepted walker does not carry the proposal's position/likelihood", cc)
    res.traces += 1
    return res


# ===================================================================================== Part D
def run_hardwall(case):
    """tpCN and RWM near hard walls on the tape lattice: no redraw, proposals outside the cube are rejections."""
    from tempest.modes import ModeStatistics
    from tempest.mcmc import parallel_mcmc

    res = Res()
    kern, d = case["kernel"], case["d"]
    ms = ModeStatistics(np.full((1, d), 0.5), np.array([np.eye(d) * 0.09]), np.array([3.0]))
    G = _grid(d, 3)
    G = np.vstack([G, np.full((1, d), 0.02), np.full((1, d), 0.98)])
    for u in G:
        for g in (0.25, 1.0, 4.0):
            for z in itertools.product((-2.0, -1.0, 0.0, 1.0, 2.0), repeat=d):
                calls = {"randn": 0, "gamma": 0}
                props = []

                def h_randn(t, *a, **k):
                    calls["randn"] += 1
                    return np.array(z) if calls["randn"] == 1 else np.zeros(d)

                def h_gamma(t, shape=None, scale=1.0, size=None):
                    calls["gamma"] += 1
                    return g

                def pt(uu):
                    props.append(np.array(uu, copy=True))
                    return np.array(uu, copy=True)

                r0 = _runner(kern, u[None, :], ms, 0, 1.0)
                v, _rec = _extract(r0, 0, d, g, z)
                if _rec[-1][1] > 1:
                    # redraw loop: the free proposal is what the first innovation would have produced
                    cfree, _ = _extract(r0, 0, d, g, np.zeros(d))
                    v = None
                calls["gamma"] = 0
                with OwnedRandom(1, handlers={"randn": h_randn, "gamma": h_gamma, "rand": lambda t, *a, **k: np.zeros(a)}):
                    out = parallel_mcmc(u=u[None, :].copy(), x=u[None, :].copy(), logl=np.zeros(1), blobs=None, assignments=np.array([0]), beta=1.0, mode_stats=ms,
                                        log_likelihood=lambda x: (np.zeros(len(x)), None), prior_transform=pt, n_steps=1, n_max=0, sample=kern, verbose=False)
                res.evals += 1
                res.trans += 1
                res.states += 1
                outside = True if v is None else bool(np.any(v < 0) or np.any(v > 1))
                cc = dict(case, only=[u.tolist(), g, list(z)])
                res.outcome((kern, d, tuple(u.tolist()), g, z, outside), nontrivial=outside)
                if calls["randn"] > 1:
                    res.violate(f"hardwall:redraw:{kern}", f"{kern}: the innovation was drawn {calls['randn']} times for one proposal (u={u.tolist()}, z={z}, g={g}): redraw-until-inside renormalises the proposal by its in-cube mass and breaks detailed balance at hard walls", cc)
                    continue
                if outside:
                    if not np.array_equal(out[0][0], u) or float(out[5]) != 0.0:
                        res.violate(f"hardwall:outside-accepted:{kern}", f"{kern}: proposal {v.tolist()} outside the cube was not a plain rejection (alpha={out[5]!r}, walker at {out[0][0].tolist()})", cc)
                    if np.any(out[0] < 0) or np.any(out[0] > 1):
                        res.violate(f"hardwall:escaped:{kern}", f"{kern}: walker left the unit cube: {out[0].tolist()}", cc)
                else:
                    if not np.allclose(props[-1], v, rtol=0, atol=1e-15):
                        res.violate(f"hardwall:inside-altered:{kern}", f"{kern}: in-cube proposal {v.tolist()} was altered to {props[-1].tolist()}", cc)
    res.traces += 1
    return res


def _t1_pdf(x, loc, s2, dof):
    """1-d Student-t density with squared scale s2, vectorised over x."""
    return np.exp(gammaln((dof + 1) / 2) - gammaln(dof / 2) - 0.5 * np.log(dof * np.pi * s2) - 0.5 * (dof + 1) * np.log1p((x - loc) ** 2 / (dof * s2)))


def run_fold(case):
    """tpCN / RWM with a periodic or reflective coordinate, 1-d: detailed balance of the folded kernel by image sums."""
    from tempest.modes import ModeStatistics

    res = Res()
    kern, btype, nu, sigma, mu0, s2 = case["kernel"], case["btype"], case["nu"], case["sigma"], case["mu"], case["s2"]
    ms = ModeStatistics(np.array([[mu0]]), np.array([[[s2]]]), np.array([nu]))
    G = np.linspace(0.05, 0.95, 10)[:, None]
    n = len(G)
    per, ref = ([0], None) if btype == "p" else (None, [0])
    r = _runner(kern, G, ms, 0, 1.0, per, ref)
    if kern == "tpcn":
        r.sigmas[:] = sigma
    # extract the (unfolded) proposal law per state from the real code with boundaries switched off
    r_free = _runner(kern, G, ms, 0, 1.0, None, None)
    if kern == "tpcn":
        r_free.sigmas[:] = sigma
    model = []
    for k in range(n):
        c, rec = _extract(r_free, k, 1, 1.0, np.zeros(1))
        a1 = _extract(r_free, k, 1, 1.0, np.ones(1))[0] - c
        if kern == "tpcn":
            a, th = rec[0]
            model.append((float(c[0]), float(a1[0] ** 2 / (a * th)), 2.0 * a, False))
        else:
            model.append((float(c[0]), float(a1[0] ** 2), None, True))
        # the folded kernel must be the fold of the free proposal (validated on the tape lattice)
        for z in (-3.0, -1.0, 0.0, 1.0, 3.0):
            for g in (0.25, 1.0):
                free, frec = _extract(r_free, k, 1, g, np.array([z]))
                if frec[-1][1] > 1:
                    continue
                fold = _extract(r, k, 1, g, np.array([z]))[0]
                res.evals += 1
                res.trans += 1
                w = free[0] % 1.0 if btype == "p" else 1.0 - abs((free[0] % 2.0) - 1.0)
                if abs(fold[0] - w) > 1e-12 and abs(abs(fold[0] - w) - 1.0) > 1e-12:
                    res.violate(f"fold:{kern}:{btype}:not-fold-of-free-proposal", f"folded proposal {fold[0]!r} is not the fold of the free proposal {free[0]!r}", dict(case))
                    return res
    ks = np.arange(-3000, 3001)

    def qfold(k, v):
        c, s2k, dof, gauss = model[k]
        imgs = (v + ks) if btype == "p" else np.concatenate([v + 2 * ks, -v + 2 * ks])
        if gauss:
            return float(np.sum(np.exp(-0.5 * (imgs - c) ** 2 / s2k) / math.sqrt(2 * math.pi * s2k)))
        return float(np.sum(_t1_pdf(imgs, c, s2k, dof)))

    worst = (0.0, None)
    for j in range(n):
        v = G[j]
        rf = np.asarray(r._compute_acceptance_factor(np.tile(v, (n, 1)), np.zeros(n)), dtype=float)
        for k in range(n):
            if k >= j:
                continue
            rb = float(np.asarray(r._compute_acceptance_factor(np.tile(G[k], (n, 1)), np.zeros(n)))[j])
            fwd = qfold(k, float(v[0])) * min(1.0, math.exp(rf[k]))
            bwd = qfold(j, float(G[k][0])) * min(1.0, math.exp(rb))
            res.evals += 1
            res.states += 1
            dev = abs(math.log(fwd) - math.log(bwd))
            if dev > worst[0]:
                worst = (dev, (float(G[k][0]), float(v[0]), fwd, bwd))
    res.outcome((kern, btype, nu, sigma, mu0, s2), nontrivial=True)
    res.traces += 1
    if worst[0] > 1e-4:
        a, b, fwd, bwd = worst[1]
        res.violate(f"fold:{kern}:{'periodic' if btype == 'p' else 'reflective'}:detailed-balance",
                    f"{kern} with a {'periodic' if btype == 'p' else 'reflective'} coordinate (flat target, nu={nu}, sigma={sigma}, mode mean {mu0}, scale^2 {s2}): "
                    f"q(u->v) a(u->v) = {fwd:.6g} but q(v->u) a(v->u) = {bwd:.6g} for u={a:.3f}, v={b:.3f} (image-sum proposal densities; |log ratio| = {worst[0]:.3g})", dict(case))
    return res


def run_ensemble(case):
    """Scale: the acceptance factor of a LARGE ensemble (thousands of walkers, dimension up to 32, several modes, unsorted assignments) must be,
    walker by walker, the factor the same kernel computes for that walker alone (the small scopes of part B decide the latter against the
    proposal law).  Also the step is per-walker: proposals for walker k do not depend on the other walkers."""
    from tempest.mcmc import TPCNRunner
    from tempest.modes import ModeStatistics

    res = Res()
    n, d, K = case["n"], case["d"], case["K"]

    def vdc(i, b):
        x, f = 0.0, 1.0 / b
        while i:
            x += f * (i % b)
            i //= b
            f /= b
        return x

    pr = [2, 3, 5, 7, 11, 13, 17, 19, 23, 29, 31, 37, 41, 43, 47, 53, 59, 61, 67, 71, 73, 79, 83, 89, 97, 101, 103, 107, 109, 113, 127, 131]
    U = np.array([[vdc(i + 1, pr[j % len(pr)] + 2 * (j // len(pr))) for j in range(d)] for i in range(n)]) * 0.9 + 0.05
    V = np.roll(U, 7, axis=0)[:, ::-1].copy()
    assign = (np.arange(n) * 7 + (np.arange(n) // 5)) % K  # unsorted, every mode occupied
    means = np.array([np.full(d, 0.3 + 0.2 * k) for k in range(K)])
    covs = []
    for k in range(K):
        a = np.cos(np.arange(d) * (k + 1.3))
        covs.append(np.diag(0.02 + 0.01 * np.arange(d) / d) * (1 + k) + 0.004 * np.outer(a, a))
    ms = ModeStatistics(means, np.array(covs), np.array([2.0, 5.0, 1e6, 1.0][:K]))

    def runner(Us, As):
        m = len(Us)
        return TPCNRunner(Us.copy(), Us.copy(), np.zeros(m), None, As.copy(), 0.7, ms, lambda x: (np.zeros(len(x)), None), lambda u: u, None, 1, 0, None, None, False)

    big = runner(U, assign)
    with np.errstate(all="ignore"):
        fb = np.asarray(big._compute_acceptance_factor(V.copy(), np.zeros(n)), dtype=float)
    res.evals += 1
    worst = (0.0, None)
    for i in range(n):
        one = runner(U[i:i + 1], assign[i:i + 1])
        with np.errstate(all="ignore"):
            f1 = float(np.asarray(one._compute_acceptance_factor(V[i:i + 1].copy(), np.zeros(1)))[0])
        res.evals += 1
        err = abs(fb[i] - f1)
        if err > 1e-9 * (1 + abs(f1)) and err > worst[0]:
            worst = (err, (i, float(fb[i]), f1))
    res.states += n
    res.outcome(("ensemble", n, d, K), nontrivial=True)
    if worst[1] is not None:
        i, got, want = worst[1]
        res.violate("tpcn:ensemble-factor", f"ensemble of {n} walkers in {d} dimensions, {K} modes: acceptance factor of walker {i} (mode {int(assign[i])}) is {got!r} inside the ensemble "
                    f"but {want!r} when the same kernel is asked about that walker alone", dict(case))
    return res


KINDS = {"ensemble": run_ensemble, "lattice": run_lattice, "tpcn": run_tpcn, "accept": run_accept, "hardwall": run_hardwall, "fold": run_fold}


def plan(ctx):
    th = ctx.thorough
    # ---- A
    A = []
    vals = [0.0, -1.0, -3.0]
    for M in ((4, 5, 6, 7) if th else (4, 5, 6)):
        ls = list(itertools.product(vals, repeat=M))
        if not th and M == 6:
            ls = ls[ctx.seed % 3::3]
        chunks = [ls[i::(24 if M == 7 else 8)] for i in range(24 if M == 7 else 8)] if len(ls) > 60 else [ls]
        for bnd in "hpr":
            for K in (1, 2):
                for ch in chunks:
                    if ch:
                        A.append({"kind": "lattice", "kernel": "rwm", "shape": [M], "bnd": [bnd], "K": K, "landscapes": [list(l) for l in ch], "betas": [0.25, 1.0]})
    fam2 = []
    for shape in (([3, 3], [4, 3], [4, 4], [5, 3], [3, 3, 2]) if th else ([3, 3], [4, 3])):
        M = int(np.prod(shape))
        fam = [[0.0] * M]
        for s in range(14 if th else 6):
            fam.append([vals[(i * (s + 2) + s + (i // shape[-1])) % 3] for i in range(M)])
        for bnd in itertools.product("hpr", repeat=len(shape)):
            A.append({"kind": "lattice", "kernel": "rwm", "shape": shape, "bnd": list(bnd), "K": 1 if not th else 2, "landscapes": fam, "betas": [0.25, 1.0]})
    ctx.explore("A-rwm-lattice-chain", A)
    # ---- B
    B = []
    for d in ((1, 2, 3, 4) if th else (1, 2, 3)):
        for K in (1, 2):
            for nu in ((0.5, 1.0, 2.0, 5.0, 30.0, 1e6) if th else (0.5, 1.0, 5.0, 1e6)):
                for S in ("iso", "corr", "scales"):
                    if d == 1 and S == "corr":
                        continue
                    for mu in ("centre", "offset"):
                        for sigma in ((0.01, 0.1, 0.5, 0.9, 0.99) if th else (0.1, 0.5, 0.99)):
                            if not th and d == 3 and (hash((K, nu, S, mu, sigma)) + ctx.seed) % 3:
                                continue
                            B.append({"kind": "tpcn", "d": d, "K": K, "nu": nu, "S": S, "mu": mu, "sigma": sigma})
    for d in (1, 2):
        for K in (1, 2):
            for nu in (1.0, 2.0, 5.0):
                for kind in ("array", "list"):
                    B.append({"kind": "tpcn", "d": d, "K": K, "nu": nu, "S": "iso", "mu": "centre", "sigma": 0.5, "int_dof": kind})
    for d in (1, 2, 3):
        for K in (1, 2):
            for nu in (1.0, 5.0):
                B.append({"kind": "tpcn", "d": d, "K": K, "nu": nu, "S": "tiny", "mu": "centre", "sigma": 0.5})
    for via in ("pickle", "deepcopy", "copy"):
        for d in (2, 3):
            for K in (1, 2):
                for S in ("corr", "scales"):
                    B.append({"kind": "tpcn", "d": d, "K": K, "nu": 2.0 if d == 2 else 5.0, "S": S, "mu": "offset", "sigma": 0.5, "via": via})
    ctx.explore("B-tpcn-law-vs-ratio", B, chunksize=2)
    ctx.explore("large-ensembles", [{"kind": "ensemble", "n": n_, "d": d_, "K": K_} for n_, d_, K_ in ((300, 4, 3), (1500, 32, 3), (4200, 16, 4)) + (((4096, 20, 3),) if th else ())])
    # ---- C, D
    CD = [{"kind": "accept", "kernel": k} for k in ("tpcn", "rwm")]
    CD += [{"kind": "hardwall", "kernel": k, "d": d} for k in ("tpcn", "rwm") for d in (1, 2)]
    for kern in ("rwm", "tpcn"):
        for bt in "pr":
            for nu in ((2.0, 5.0, 1e6) if kern == "tpcn" else (5.0,)):
                for sigma in ((0.3, 0.9) if kern == "tpcn" else (1.0,)):
                    for mu0, s2 in ((0.5, 0.02), (0.15, 0.05), (0.85, 0.2)):
                        CD.append({"kind": "fold", "kernel": kern, "btype": bt, "nu": nu, "sigma": sigma, "mu": mu0, "s2": s2})
    ctx.explore("C-accept-D-boundaries", CD)
    ctx.bounds.update({"A": {"lattices_1d": [4, 5, 6], "lattices_2d": [[3, 3], [4, 3]], "landscape_values": vals, "boundaries": "h/p/r per coordinate", "clusters": [1, 2]},
                       "B": {"d": [1, 2, 3], "K": [1, 2], "nu": [0.5, 1, 5, 1e6], "Sigma": ["iso", "corr", "scales"], "sigma": [0.1, 0.5, 0.99], "grid": "5^d (3^3 for d=3)"},
                       "D": {"fold_image_terms": 6001}})
    if not th:
        ctx.notes.append("quick: M=6 landscapes every third (rotated by VERIF_SEED); d=3 tpCN parameter points every third")
