"""C11 - Zero-likelihood prior regions are excluded and counted exactly once.

The prior draws of the warm-up (beta=0) iterations are scripted so that a chosen mask of each
batch falls where the likelihood is zero.  ALL mask sequences over W warm-up iterations are
enumerated (plus all replacement-index answers for small n) and the real Sampler.sample() is
stepped through warm-up and the first annealing iteration.
"""
import itertools
import math

import numpy as np

from mc import env
from mc.core import Res
from mc import targets
from mc.tape import OwnedRandom
from mc.pipeline import Probe, UserFailure, UserInterrupt

LEVEL = "model_checking"
RULE = ("executions = all sequences of -inf masks (m_1..m_W) in ({0,1}^n)^W for n in {2,3,4}, W in {1..4} (W forced through ess_ratio), x all "
        "replacement answers (n<=3, W<=2), on a constant-on-support and a sloped-on-support likelihood; state = step-boundary state; "
        "oracle: no -inf stored; each beta=0 batch's recorded logZ inside [min, max] of the per-batch log supported fractions seen so far; first beta>0 "
        "evidence (constant likelihood) inside the same interval; non-trivial = sequence with at least one -inf draw and at least one finite draw in every batch.")
ASSUMPTIONS = ["the supported-fraction estimate may be per batch, pooled or harmonic-pooled: anything inside [min_s log f_s, max_s log f_s] is accepted",
               "batches with no finite draw at all are reported under their own key (hole:all-inf-batch)"]

F = 0.5


def _U(n, mask, t):
    return np.array([[(0.6 + 0.05 * i + 0.011 * t) if mask[i] else (0.1 + 0.05 * i + 0.013 * t)] for i in range(n)])


def run_masks(case):
    res = Res()
    n, W, slope = case["n"], case["W"], case["slope"]
    ratio = {1: 0.5, 2: 1.0, 3: 2.0, 4: 3.0}[W]
    seqs = itertools.product(itertools.product([0, 1], repeat=n), repeat=W + (1 if case.get("fail") else 0))  # a retried batch consumes one more mask
    if case.get("only"):
        seqs = [tuple(tuple(m) for m in case["only"])]
    first_mask = case.get("first_mask")
    for ms in seqs:
        if first_mask is not None and list(ms[0]) != first_mask:
            continue
        answers = [None]
        if case.get("answers") and n <= 3:
            inf0 = [i for i in range(n) if ms[0][i]]
            fin0 = [i for i in range(n) if not ms[0][i]]
            if inf0 and fin0:
                answers = list(itertools.product(fin0, repeat=len(inf0)))
        for ans in answers:
            _one(res, case, n, W, ratio, slope, ms, ans)
    res.traces += 1
    return res


def _one(res, case, n, W, ratio, slope, ms, ans):
    variant = case.get("variant", "scalar")
    cfg = dict(d=1, n_particles=n, ess_ratio=ratio, n_total=10 ** 6, clustering=False, eval="scalar", prior="affine", target="flat")
    if variant == "vec32":      # vectorised likelihood returning float32
        cfg.update(eval="vec", ll_dtype="float32")
    elif variant == "prior32":  # prior transform returning float32
        cfg.update(eval="vec", prior="affine32")
    anneal = case.get("anneal", 0)
    level = case.get("level", 0.0)  # constant-on-support likelihood: the constant (exactly the same logL for every stored particle)
    hole = targets.Hole(F, slope=slope, level=level)
    p = Probe(cfg)
    beta0_iter = [0]
    rec = {"logz0": [], "first_pos": None, "neg_inf": None, "choice_calls": 0, "draws": {}, "aborted": set(), "calls_in_iter": {}}
    fail = case.get("fail")  # [t, j]: the user's likelihood raises at its j-th call of sampler iteration t (once); the iteration is then retried

    def user_ll(x):
        c = rec["calls_in_iter"][p.iters] = rec["calls_in_iter"].get(p.iters, 0) + 1
        if fail and not rec["aborted"] and p.iters == fail[0] and c == fail[1]:
            rec["aborted"].add(p.iters)
            if len(fail) > 2 and fail[2] == "kbd":
                raise UserInterrupt(f"Ctrl-C at call {c} of iteration {p.iters}")
            raise UserFailure(f"transient failure at call {c} of iteration {p.iters}")
        return hole(x)

    p.ll.f = user_ll  # instrumented likelihood evaluates the hole target

    def h_rand(t, *a, **k):
        if a == (n,) and anneal:
            return np.zeros(n)  # Metropolis uniforms 0.0: every proposal with a non-zero acceptance probability is accepted
        if a == (n, 1):
            it = beta0_iter[0]
            beta0_iter[0] += 1
            m = ms[it] if it < W else (0,) * n
            rec["draws"].setdefault(p.iters, []).append(m)  # which sampler iteration consumed this scripted batch
            return _U(n, m, it)
        return OwnedRandom.PASS

    def h_choice(t, a, size=None, replace=True, p=None):
        rec["choice_calls"] += 1
        if ans is not None and rec["choice_calls"] == 1 and p is None:
            return np.array(ans, dtype=int)
        return OwnedRandom.PASS

    p.tape.handlers.update({"rand": h_rand, "choice": h_choice})

    def mon(ev):
        st = ev.probe.state
        cur = st._current
        if ev.step in ("mutate", "commit") and cur["logl"] is not None:
            if not np.all(np.isfinite(cur["logl"])):
                rec["neg_inf"] = rec["neg_inf"] or (ev.iter, ev.step, "current")
        if ev.step == "commit":
            if any(not np.all(np.isfinite(b)) for b in st._history["logl"]):
                rec["neg_inf"] = rec["neg_inf"] or (ev.iter, ev.step, "history")
            # every stored particle lies in the supported region and is the image of its own unit-cube point
            ub, xb = np.asarray(st._history["u"][-1], dtype=float), np.asarray(st._history["x"][-1], dtype=float)
            for i in range(len(ub)):
                xi = 20.0 * ub[i] - 10.0
                if not np.allclose(xb[i], xi, rtol=1e-6, atol=1e-5) or not (xb[i][0] < 20.0 * F - 10.0):
                    rec["unsupported"] = rec.get("unsupported") or (ev.iter, i, xb[i].tolist(), ub[i].tolist())
            if float(cur["beta"]) == 0.0:
                rec["logz0"].append(float(st._history["logz"][-1]))
        if ev.step == "reweight" and float(cur["beta"]) > 0.0 and rec["first_pos"] is None:
            rec["first_pos"] = (float(cur["beta"]), float(cur["logz"]), ev.iter)

    p.monitors.append(mon)
    p.steps(W + 1 + anneal, retry_on=(UserFailure, UserInterrupt) if fail else None)
    res.evals += 1
    res.states += p.events
    res.trans += p.events
    cc = {"kind": "masks", "n": n, "W": W, "slope": slope, "only": [list(m) for m in ms], "answers": False, "variant": variant, "anneal": anneal, "level": level}
    label = f"n={n} W={W} masks={[''.join(map(str, m)) for m in ms]}"
    if fail:
        cc["fail"] = list(fail)
        label += f", likelihood raised once at its call {fail[1]} of iteration {fail[0]} and the iteration was retried" if rec["aborted"] else ""
        res.bump("failure_injected" if rec["aborted"] else "failure_point_not_reached")
        for it in rec["aborted"]:
            rec["draws"].pop(it, None)  # draws of the aborted attempt belong to no stored batch
    all_inf = any(all(m) for m in ms)
    nontriv = any(any(m) for m in ms)
    res.outcome((n, W, slope, ms, ans) + ((tuple(fail),) if fail else ()), nontrivial=nontriv)
    if all_inf:
        k = [i for i, m in enumerate(ms) if all(m)][0]
        if rec["neg_inf"] is not None or (p.exc is not None and beta0_iter[0] <= W):
            what = f"-inf particles stored ({rec['neg_inf']})" if rec["neg_inf"] else f"raised {p.exc!r}"
            res.violate("hole:all-inf-batch", f"{label}: warm-up batch {k + 1} has no finite draw: {what}", cc)
            return
    # supported fraction per sampler iteration: finite draws of the batch that was kept / all draws made for it
    # (a batch without any finite draw is drawn again; the discarded draws count in the denominator)
    fr = []
    for it in sorted(rec["draws"]):
        group = rec["draws"][it]
        kept = group[-1]
        if all(kept):
            continue
        fr.append((n - sum(kept)) / (n * len(group)))
    W_eff = sum(1 for it in rec["draws"] if not all(rec["draws"][it][-1]))
    fr = fr[: len(rec["logz0"])] if all_inf else fr
    if all_inf:
        W = min(len(rec["logz0"]), len(fr))
        if W == 0:
            return
    if rec["neg_inf"] is not None:
        res.violate("hole:minus-inf-stored", f"{label} [{variant}{', annealing with uniforms 0' if anneal else ''}]: a -inf/nan log-likelihood was stored at {rec['neg_inf']}", cc)
        return
    if rec.get("unsupported") is not None:
        res.violate("hole:unsupported-particle-stored", f"{label} [{variant}]: a stored particle lies outside the supported region / is not the image of its unit-cube point: {rec['unsupported']}", cc)
        return
    if len(rec["logz0"]) < W:
        res.violate(f"hole:warmup-length", f"{label}: expected {W} beta=0 iterations, recorded {len(rec['logz0'])} (exc={p.exc!r})", cc)
        return
    logf = [math.log(f) for f in fr]
    for t in range(W):
        lo, hi = min(logf[: t + 1]), max(logf[: t + 1])
        z = rec["logz0"][t]
        if not (lo - 1e-12 <= z <= hi + 1e-12):
            res.violate("hole:counted-more-than-once" if z < lo else "hole:fraction-wrong",
                        f"{label}: beta=0 iteration {t + 1} recorded logZ={z!r}; the log supported fractions of the batches so far are {logf[: t + 1]} "
                        f"(must lie in [{lo!r}, {hi!r}])", cc)
            return
    if slope == 0.0:
        if rec["first_pos"] is None:
            if p.exc is not None:
                res.bump("aborted_before_first_annealing_reweight")
            return
        b, z, it = rec["first_pos"]
        lo, hi = min(logf), max(logf)
        if b != 1.0:
            res.violate("hole:flat-first-beta", f"{label}: constant-on-support likelihood, first beta>0 is {b!r} (expected 1)", cc)
        if not (lo + level - 1e-12 <= z <= hi + level + 1e-12):
            res.violate("hole:evidence", f"{label}: likelihood = exp({level}) on the support; evidence at the first annealing iteration is {z!r}, outside [{lo + level!r}, {hi + level!r}] (log supported fractions {logf})", cc)


def run_large11(case):
    """Scale: hundreds of particles and a warm-up of dozens of iterations (the samples-by-iterations table exceeds 2^21 entries) on a likelihood that
    is constant on half of the prior volume.  Nothing is scripted; the supported fraction of every prior batch is observed at the likelihood.
    Every beta=0 record, the evidence after the first annealing step and the evidence re-estimated from the stored history must lie between the
    smallest and the largest log supported fraction seen."""
    res = Res()
    n, ratio, level = case["n"], case["ratio"], case["level"]
    cfg = dict(d=1, n_particles=n, ess_ratio=ratio, n_total=10 ** 9, clustering=False, eval="scalar", prior="affine", target="flat", max_iters=10 ** 6)
    hole = targets.Hole(F, slope=0.0, level=level)
    p = Probe(cfg, base=case["base"])
    cnt = {}

    def user_ll(x):
        v = hole(x)
        c = cnt.setdefault(p.iters, [0, 0])
        c[0] += 1
        c[1] += int(np.isfinite(v))
        return v

    p.ll.f = user_ll
    rec = {"logz0": [], "after": []}

    def mon(ev):
        st = ev.probe.state
        if ev.step == "commit":
            if float(st._current["beta"]) == 0.0:
                rec["logz0"].append((ev.iter, float(st._history["logz"][-1])))
            else:
                rec["after"].append((ev.iter, float(st._current["beta"]), float(st._history["logz"][-1])))

    p.monitors.append(mon)
    W = int(math.ceil(ratio))
    p.steps(W + 2)
    res.evals += 1
    res.states += p.events
    res.trans += p.events
    cc = dict(case)
    if p.exc is not None:
        res.violate(f"large:raises:{type(p.exc).__name__}", f"n={n}, ess_ratio={ratio}: sample() raised {p.exc!r}", cc)
        return res
    logf = [math.log(c[1] / c[0]) for it, c in sorted(cnt.items()) if c[1] > 0 and it <= W + 1]
    lo, hi = min(logf), max(logf)
    res.outcome(("large", n, ratio, level, len(rec["logz0"])), nontrivial=lo < 0)
    for it, z in rec["logz0"]:
        if not (lo - 1e-9 <= z <= hi + 1e-9):
            res.violate("large:warmup-record", f"n={n}, ess_ratio={ratio}: beta=0 iteration {it} recorded logZ={z!r}; the log supported fractions of the prior batches lie in [{lo!r}, {hi!r}]", cc)
            return res
    for it, b, z in rec["after"]:
        if not (lo + b * level - 1e-6 <= z <= hi + b * level + 1e-6):
            res.violate("large:evidence", f"n={n}, ess_ratio={ratio}, likelihood = exp({level}) on the support: iteration {it} (beta={b!r}) recorded logZ={z!r}, outside [{lo + b * level!r}, {hi + b * level!r}] "
                        f"(log supported fractions of the {len(logf)} prior batches between {lo!r} and {hi!r})", cc)
            return res
    _, lz1 = p.state.compute_logw_and_logz(1.0)
    if not (lo + level - 1e-6 <= float(lz1) <= hi + level + 1e-6):
        res.violate("large:evidence-from-history", f"n={n}, ess_ratio={ratio}: evidence at beta=1 re-estimated from the stored history is {float(lz1)!r}, outside [{lo + level!r}, {hi + level!r}]", cc)
    return res


KINDS = {"large": run_large11, "masks": run_masks}


def plan(ctx):
    th = ctx.thorough
    cases = []
    for n in (2, 3, 4):
        for W in (1, 2, 3, 4):
            if n ** 1 and (2 ** n) ** W > (70000 if th else 5000):
                continue
            for slope in (0.0, 0.3):
                if not th and slope != 0.0 and (2 ** n) ** W > 512:
                    continue
                if (2 ** n) ** W >= 256:
                    for fm in itertools.product([0, 1], repeat=n):
                        cases.append({"kind": "masks", "n": n, "W": W, "slope": slope, "first_mask": list(fm), "answers": W <= 2})
                else:
                    cases.append({"kind": "masks", "n": n, "W": W, "slope": slope, "answers": W <= 2})
    for n in (2, 3):
        for W in (1, 2):
            for lv in (-2.5, 3.0):
                cases.append({"kind": "masks", "n": n, "W": W, "slope": 0.0, "answers": False, "level": lv})
    for variant in ("vec32", "prior32"):
        for n in (2, 3):
            for W in (1, 2):
                cases.append({"kind": "masks", "n": n, "W": W, "slope": 0.3, "answers": False, "variant": variant})
    for (n, W) in ((3, 1), (3, 2), (4, 1)) + (((4, 2),) if th else ()):
        for slope in (0.3, 300.0):
            for fm in itertools.product([0, 1], repeat=n):
                cases.append({"kind": "masks", "n": n, "W": W, "slope": slope, "answers": False, "anneal": 3 if th else 2, "first_mask": list(fm)})
    for (n, W) in ((2, 1), (2, 2), (3, 1)) + (((3, 2), (4, 1), (2, 3)) if th else ()):
        for t in range(1, W + 2):
            for j in range(1, 2 * n + 1):
                cases.append({"kind": "masks", "n": n, "W": W, "slope": 0.0 if (t + j) % 2 else 0.3, "answers": False, "fail": [t, j]})
                if n == 2 or th:  # the same failure points with a KeyboardInterrupt (not an Exception subclass) that the user catches
                    cases.append({"kind": "masks", "n": n, "W": W, "slope": 0.3 if (t + j) % 2 else 0.0, "answers": False, "fail": [t, j, "kbd"]})
    ctx.bounds["failure_points"] = "every (iteration t <= W+1, likelihood call j <= 2n) x every mask sequence; (n,W) in {(2,1),(2,2),(3,1)} quick, + (3,2),(4,1),(2,3) thorough"
    ctx.bounds.update({"n_particles": [2, 3, 4], "warmup_iterations": [1, 2, 3, 4], "mask_sequences_max": 65536 if th else 4096, "supported_fraction": F})
    ctx.explore("mask-sequences", cases)
    ctx.explore("large-scopes", [{"kind": "large", "n": n_, "ratio": r_, "level": lv_, "base": ctx.seed} for n_, r_, lv_ in ((512, 66.0, 0.0), (2048, 34.0, -1.5), (64, 8.0, 0.0)) + (((1024, 50.0, 2.0),) if th else ())])
    ctx.res.sample({"n": 3, "W": 2, "masks": ["010", "100"], "expected_logZ_interval": [math.log(2 / 3), math.log(2 / 3)]})
