"""C10 - Rescaling the likelihood shifts log-evidence only.

Paired executions of the real sampler under the SAME owned tape with log-likelihood f and f+c:
after every pipeline step (reweight, train, resample, mutate, commit) of every run of a
tape-deviation tree the two states must agree - particles, labels and counters exactly, beta /
normalised weights / ESS up to rounding, every recorded log-evidence shifted by beta*c.
"""
import numpy as np

from mc import env
from mc.core import Res
from mc import lattice
from mc.pipeline import Probe, deviation_tree, digest

LEVEL = "model_checking"
RULE = ("executions = (configuration, shift c in {-1e3,-37.25,0.5,64,1e3}, tape with <=D per-iteration symbol deviations), each run twice (f, f+c) and compared at "
        "every step boundary; a state = one step-boundary state pair; non-trivial = pair of runs with >=2 distinct annealing temperatures; "
        "a discrete mismatch is reported only if it reproduces on a second, independent tape (rounding ties do not).")
ASSUMPTIONS = ["tolerances: beta 1e-9 abs, weights 1e-8 rel + 1e-12 abs, ESS 1e-8 rel, logZ 1e-9*(1+|c|), logL 1e-7*(1+|c|), particle coordinates 1e-7 rel (acceptance-probability rounding feeds the step-size adaptation); labels/shapes/counters exact",
               "a floating comparison landing within rounding of its threshold can flip a discrete decision; such ties do not reproduce on an independent tape and are not reported"]

SHIFTS = [-1e3, -37.25, 0.5, 64.0, 1e3]


def _trace_monitor(store):
    def mon(ev):
        st = ev.probe.state
        cur = st._current
        rec = {"step": ev.step, "iter": ev.iter, "beta": float(cur["beta"]) if cur["beta"] is not None else None,
               "logz": float(cur["logz"]) if cur["logz"] is not None else None,
               "ess": float(cur["ess"]) if cur["ess"] is not None else None,
               "calls": cur["calls"], "steps": cur["steps"],
               "u": None if cur["u"] is None else np.array(cur["u"], copy=True), "x": None if cur["x"] is None else np.array(cur["x"], copy=True),
               "disc": digest([cur["assignments"], None if cur["u"] is None else np.shape(cur["u"])]),
               "blobs": None if cur["blobs"] is None else np.array(cur["blobs"], dtype=float, copy=True),
               "logl": None if cur["logl"] is None else np.array(cur["logl"], copy=True)}
        if ev.step == "reweight":
            rec["w"] = np.array(ev.info["weights"], copy=True)
        if ev.step == "commit":
            rec["hist_logz"] = [float(z) for z in st._history["logz"]]
            rec["hist_beta"] = [float(b) for b in st._history["beta"]]
        store.append(rec)
    return mon


def _compare(a, b, c):
    """First difference between the unshifted trace a and the shifted trace b; None if they agree."""
    tl = 1e-9 * (1 + abs(c))
    dmax = 0.0  # largest deviation of a stored log-likelihood pair from the exact shift seen so far: rounding of alpha feeds the step-size
    #             adaptation, so positions (and with them logL) of the two runs drift apart at rounding level; weights, ESS and logZ are
    #             functions of those logL and can agree only to a small multiple of that observed drift
    for i, (x, y) in enumerate(zip(a, b)):
        where = f"after '{x['step']}' of iteration {x['iter']}"
        if x["step"] != y["step"] or x["iter"] != y["iter"]:
            return ("structure", f"step sequence differs at event {i}: {x['step']}/{x['iter']} vs {y['step']}/{y['iter']}")
        if (x["beta"] is None) != (y["beta"] is None) or (x["beta"] is not None and abs(x["beta"] - y["beta"]) > 1e-9):
            return ("beta", f"{where}: beta {x['beta']!r} vs {y['beta']!r} with c={c}")
        if x["disc"] != y["disc"] or x["calls"] != y["calls"] or x["steps"] != y["steps"]:
            return ("particles", f"{where}: labels / shapes / counters differ between f and f+{c} (calls {x['calls']} vs {y['calls']}, steps {x['steps']} vs {y['steps']})")
        for fld in ("u", "x", "blobs"):
            if x[fld] is not None:
                # rounding of alpha feeds the step-size adaptation, so positions agree to rounding, not bit for bit
                if y[fld] is None or x[fld].shape != y[fld].shape or np.max(np.abs(x[fld] - y[fld])) > 1e-7 * (1.0 + np.max(np.abs(x[fld]))):
                    return ("particles", f"{where}: particle field '{fld}' differs between f and f+{c} (max abs {np.max(np.abs(x[fld] - y[fld])) if y[fld] is not None and x[fld].shape == y[fld].shape else 'shape'})")
        if x["logl"] is not None:
            if y["logl"] is None or x["logl"].shape != y["logl"].shape or np.max(np.abs((y["logl"] - x["logl"]) - c)) > 100 * tl:
                return ("logl", f"{where}: stored log-likelihoods are not shifted by c={c}")
            dmax = max(dmax, float(np.max(np.abs((y["logl"] - x["logl"]) - c))))
        if "w" in x:
            if x["w"].shape != y["w"].shape or np.max(np.abs(x["w"] - y["w"]) / (np.abs(x["w"]) + 1e-4 / len(x["w"]))) > 1e-8 + 20 * dmax:
                return ("weights", f"{where}: normalised weights differ (max abs {np.max(np.abs(x['w'] - y['w'])):.3g}) with c={c}")
        if x["ess"] is not None and abs(x["ess"] - y["ess"]) > (1e-8 + 20 * dmax) * max(1.0, abs(x["ess"])):
            return ("ess", f"{where}: ESS {x['ess']!r} vs {y['ess']!r} with c={c}")
        if x["logz"] is not None and x["step"] in ("reweight", "commit"):
            if abs((y["logz"] - x["logz"]) - x["beta"] * c) > tl + 20 * dmax:
                return ("logz", f"{where}: logZ {x['logz']!r} -> {y['logz']!r}; expected shift beta*c = {x['beta'] * c!r}")
        if "hist_logz" in x:
            for t, (z0, z1, bt) in enumerate(zip(x["hist_logz"], y["hist_logz"], x["hist_beta"])):
                if abs((z1 - z0) - bt * c) > tl + 20 * dmax:
                    return ("logz-history", f"{where}: recorded logZ of iteration {t + 1} shifts by {z1 - z0!r}, expected beta_t*c = {bt * c!r}")
    if len(a) != len(b):
        return ("structure", f"{len(a)} step events vs {len(b)} with c={c}")
    return None


def _pair(cfg, base, symbols, c):
    ta, tb = [], []
    pa = Probe(dict(cfg, shift=0.0), symbols=symbols, base=base, monitors=[_trace_monitor(ta)]).run()
    pb = Probe(dict(cfg, shift=c), symbols=symbols, base=base, monitors=[_trace_monitor(tb)]).run()
    return pa, pb, ta, tb


def run_cfg(case):
    res = Res()
    cfg = case["cfg"]
    base = case["base"]
    shifts = case["shifts"]

    def one(symbols):
        T = 1
        for c in shifts:
            pa, pb, ta, tb = _pair(cfg, base, symbols, c)
            T = max(T, pa.iters)
            res.evals += 2
            res.traces += 1
            res.states += len(ta)
            res.trans += len(ta)
            cc = dict(kind="pair", cfg=cfg, base=base, symbols={str(k): v for k, v in symbols.items()}, c=c)
            if pa.exc is not None:
                res.bump("aborted_unshifted")
                continue
            if pb.exc is not None:
                res.violate(f"shift:raises:{type(pb.exc).__name__}", f"run with log-likelihood + {c} raised {pb.exc!r} while the unshifted run completed (cfg={cfg})", cc)
                continue
            diff = _compare(ta, tb, c)
            ev0, ev1 = float(pa.sampler.evidence()[0]), float(pb.sampler.evidence()[0])
            if diff is None and abs((ev1 - ev0) - c) > 1e-9 * (1 + abs(c)):
                diff = ("final-evidence", f"final evidence shifts by {ev1 - ev0!r}, expected c={c}")
            if diff is not None:
                key, msg = diff
                if key in ("particles", "structure", "beta"):
                    # tie classifier: a genuine dependence on c reproduces on an independent tape
                    qa, qb, t2a, t2b = _pair(cfg, base + 7919, symbols, c)
                    res.evals += 2
                    d2 = None if (qa.exc is not None or qb.exc is not None) else _compare(t2a, t2b, c)
                    if d2 is None:
                        res.bump("tie_not_reproduced")
                        continue
                res.violate(f"shift:{key}", msg + f" [cfg={cfg} symbols={symbols}]", cc)
            hb = tuple(round(r["beta"], 12) for r in ta if r["step"] == "commit")
            res.outcome((tuple(sorted((k, repr(v)) for k, v in cfg.items())), tuple(sorted(symbols.items())), c), nontrivial=len(set(hb)) > 2)
        return T

    n, capped = deviation_tree(one, alphabet=("a", "b"), max_dev=case["max_dev"], max_runs=case.get("max_runs"))
    if capped:
        res.bump("run_cap_hit")
    res.sample({"cfg": cfg, "shifts": shifts, "tapes": n}, cap=1)
    return res


def run_pair(case):
    res = Res()
    sym = {int(k): v for k, v in (case.get("symbols") or {}).items()}
    sub = dict(case, kind="cfg", shifts=[case["c"]], max_dev=0)
    import checks.c10 as me
    orig = me.deviation_tree
    try:
        me.deviation_tree = lambda fn, **kw: (fn(sym) and 1, False)
        return run_cfg(sub)
    finally:
        me.deviation_tree = orig


def run_rwstep(case):
    """Transition-level commuting diagram: one real Reweighter.run() from a synthetic state S and from its shifted image tau_c(S)
    (logL += c, logZ_t += beta_t c): same beta, same normalised weights / ESS, recorded logZ shifted by beta_new*c."""
    from checks import c05
    from tempest.steps.reweight import Reweighter

    res = Res()
    n, W, ratio = case["n"], case["W"], case["ratio"]
    N = n * W
    from scipy.stats import norm
    q = (np.arange(N + n) + 0.5) / (N + n)
    ell = -0.5 * norm.ppf(q) ** 2 * (1.0 + 0.3 * np.cos(7 * q)) * case["scale"]
    perm = np.argsort((np.arange(N + n) * 0.6180339887) % 1.0)
    ell = ell[perm]
    for bp in case["beta_prevs"]:
        if bp == 0.0:
            sizes, betas_h, lv = [n] * W, [0.0] * W, ell[:N]
            logz_h = [0.0] * W
        else:
            sizes, betas_h, lv = [n] * (W + 1), [0.0] * W + [bp], ell
            logz_h = [0.0] * W + [0.3 * bp]
        for vv in (None, 0.5, 0.05):
            outs = {}
            for c in [0.0] + case["shifts"]:
                st = c05.build(sizes, betas_h, [z + b * c for z, b in zip(logz_h, betas_h)], [float(v) + c for v in lv], 1 if vv is None else 2)
                rw = Reweighter(st, None, n_particles=n, ess_ratio=ratio, volume_variation=vv)
                try:
                    w = rw.run()
                except Exception as e:
                    outs[c] = e
                    continue
                outs[c] = (float(st._current["beta"]), np.array(w, copy=True), float(st._current["ess"]), float(st._current["logz"]))
            res.evals += len(outs)
            res.trans += len(outs)
            res.states += 1
            base = outs[0.0]
            if isinstance(base, Exception):
                res.bump("aborted")
                continue
            for c in case["shifts"]:
                o = outs[c]
                cc = dict(case, beta_prevs=[bp], shifts=[c], only_vv=vv)
                if case.get("only_vv", "x") != "x" and case["only_vv"] != vv:
                    continue
                tag = f"[one reweighting transition from beta_prev={bp!r}, n={n}, {W} warm-up batches, ess_ratio={ratio}, vv={vv}, c={c}]"
                if isinstance(o, Exception):
                    res.violate(f"rwstep:raises:{type(o).__name__}", f"Reweighter.run raised {o!r} on the shifted state {tag}", cc)
                    continue
                tl = 1e-9 * (1 + abs(c))
                if abs(o[0] - base[0]) > 1e-9:
                    res.violate("rwstep:beta", f"new beta {base[0]!r} becomes {o[0]!r} {tag}", cc)
                    continue
                if np.max(np.abs(o[1] - base[1])) > 1e-9 or abs(o[2] - base[2]) > 1e-7 * max(1.0, base[2]):
                    res.violate("rwstep:weights", f"weights/ESS change (max {np.max(np.abs(o[1] - base[1])):.3g}; ESS {base[2]!r} vs {o[2]!r}) {tag}", cc)
                if abs((o[3] - base[3]) - base[0] * c) > tl:
                    res.violate("rwstep:logz", f"recorded logZ shifts by {o[3] - base[3]!r}, expected beta_new*c = {base[0] * c!r} {tag}", cc)
                res.outcome(("rwstep", n, W, ratio, bp, vv, c, base[0]), nontrivial=base[0] > bp)
    res.traces += 1
    res.sample({"n": n, "W": W, "ratio": ratio, "beta_prevs": case["beta_prevs"], "shifts": case["shifts"]}, cap=1)
    return res


KINDS = {"cfg": run_cfg, "pair": run_pair, "rwstep": run_rwstep}

FACTORS = [
    ("sample", ["tpcn", "rwm"]),
    ("resample", ["mult", "syst"]),
    ("clustering", [False, True]),
    ("vv", [None, 0.5, 0.05]),
    ("eval", ["scalar", "vec", "blobs"]),
    ("blob_dtype", [None, "int64", "float32"]),  # type of the scalar blob a likelihood returns next to logL (only with eval=blobs)
    ("target", ["gauss", "bimodal", "weak", "flat", "plateau"]),  # incl. a constant likelihood and one with an exactly flat top (ties, ESS exactly at its target)
]


def plan(ctx):
    th = ctx.thorough
    rows = lattice.covering_array(FACTORS, strength=3 if th else 2, seed=ctx.seed)
    cov, tot = lattice.count_covered(rows, FACTORS, 3 if th else 2)
    shifts = SHIFTS if th else [SHIFTS[0], SHIFTS[2], SHIFTS[4]]
    cases = [{"kind": "cfg", "cfg": dict(r, n_particles=24, n_total=96), "base": ctx.seed, "shifts": shifts, "max_dev": 1, "max_runs": 30 if th else 6} for r in rows]
    ctx.bounds.update({"configs": len(rows), "tuples_covered": f"{cov}/{tot}", "shifts": shifts, "max_deviations": 1})
    bps = [0.0, 0.25, 0.9, 1 - 1e-3, 1 - 1.1e-4, 1 - 9e-5, 1 - 6.103515625e-05, 1 - 1e-6, 1.0]
    steps = [{"kind": "rwstep", "n": n, "W": W, "ratio": r, "scale": sc, "beta_prevs": bps, "shifts": SHIFTS}
             for n in (16, 64) for W in (2, 3) for r in (1.0, 1.5) for sc in (0.05, 1.0, 20.0)]
    ctx.explore("single-transition-diagram", steps)
    # exact special values: every stored log-likelihood the same number, particle counts that are powers of two (ESS of a uniform pool is then
    # EXACTLY its target at the end of warm-up, at beta_prev and at 1), flat-topped likelihood (exact ties between accepted moves)
    ties = [{"kind": "cfg", "cfg": dict(target=t, n_particles=npart, n_total=4 * npart, ess_ratio=er, eval=ev, clustering=False, vv=vv, sample=k), "base": ctx.seed, "shifts": shifts, "max_dev": 0, "max_runs": 1}
            for t in ("flat", "plateau", "hole") for npart in (8, 16) for er in (1.0, 2.0, 3.0) for ev in ("scalar", "vec") for vv in (None, 0.5) for k in (("tpcn", "rwm") if th else ("tpcn",))]
    ctx.explore("exact-ties", ties)
    from mc.pipeline import LARGE
    ctx.explore("large-scopes", [{"kind": "cfg", "cfg": c, "base": ctx.seed, "shifts": shifts[:2], "max_dev": 0, "max_runs": 1} for c in LARGE])
    agg = ctx.explore("paired-runs", cases)
    if agg.extra.get("run_cap_hit"):
        ctx.cap(f"tape-deviation tree truncated in {agg.extra['run_cap_hit']} configurations (0-deviation tape and the earliest 1-deviation tapes complete)")
