"""C07 - Every stored or returned particle is a coherent (u, x, logL, blob) record.

Layer 1 (unit, complete small scope): all accept-mask sequences of the real MCMC kernels, all
-inf masks x replacement answers of the prior-sampling mutation, all flag combinations of
posterior().  Layer 2 (pipeline): the coherence monitor on every step boundary of every run of a
deviation-bounded tree of tape symbols over a covering array of the option lattice.
"""
import itertools

import numpy as np

from mc import env
from mc.core import Res
from mc.tape import OwnedRandom
from mc import targets, lattice
from mc.pipeline import Probe, deviation_tree, PRIORS, TARGETS, BOUNDARY
from mc.monitors import coherent_monitor, record_errors

LEVEL = "model_checking"
RULE = ("unit layer: every accept-mask sequence (2 steps x 3 walkers), every -inf mask and replacement answer (n=4), every posterior() flag "
        "combination; pipeline layer: every step boundary (reweight/train/resample/mutate/commit) of every run with <=D tape-symbol deviations per "
        "configuration of a pairwise/3-wise covering array; a state = one step-boundary particle set checked row by row against the pure fixtures; "
        "non-trivial outcome = distinct accept-mask/answer pattern that changed at least one record, or distinct run digest.")
ASSUMPTIONS = ["fixture prior transforms / likelihoods / blobs are pure and deterministic, blob is injective on the points visited",
               "runs that raise are not attributed to C07 (C18 owns 'valid configurations always run'); they are counted as aborted"]

ACC, REJ = 0.0, 1.0 - 2.0 ** -53


def _modes(d, K=1):
    from tempest.modes import ModeStatistics

    means = np.array([[0.45] * d, [0.6] * d][:K])
    covs = np.array([np.eye(d) * 0.02 + 0.005, np.eye(d) * 0.03][:K])
    return ModeStatistics(means, covs, np.array([3.0, 1e6][:K]))


def run_kernel(case):
    """All accept-mask sequences of the real kernel: whole records move, nothing else does."""
    from tempest.mcmc import parallel_mcmc

    res = Res()
    d, nw, kern, blobs_on, bnd, prior = case["d"], 3, case["kernel"], case["blobs"], case["boundary"], case["prior"]
    cfg = dict(prior=prior, target="gauss", shift=0.0)
    pt, f = PRIORS[prior], TARGETS["gauss"]
    per, ref = BOUNDARY[bnd]
    steps = case["steps"]
    only = case.get("masks")
    seqs = [tuple(only)] if only else list(itertools.product([0, 1], repeat=nw * steps))
    u0 = np.array([[0.3, 0.4], [0.55, 0.5], [0.62, 0.7]])[:, :d]
    for seq in seqs:
        x0 = np.array([pt(ui) for ui in u0])
        l0 = np.array([f(xi) for xi in x0])
        b0 = np.array([targets.blob_of(xi) for xi in x0]) if blobs_on else None
        proposals = []
        stepno = [0]

        def ptw(u):
            proposals.append(np.array(u, copy=True))
            return pt(u)

        def ll(x):
            x = np.asarray(x)
            lg = np.array([f(xi) for xi in x])
            return lg, (np.array([targets.blob_of(xi) for xi in x]) if blobs_on else None)

        def h_rand(t, *a, **k):
            if a == (nw,):
                s = stepno[0]
                stepno[0] += 1
                return np.array([ACC if seq[s * nw + i] else REJ for i in range(nw)])
            return OwnedRandom.PASS

        kw = dict(u=u0.copy(), x=x0.copy(), logl=l0.copy(), blobs=None if b0 is None else b0.copy(), assignments=np.array([0, 1, 0]) % case["K"],
                  beta=0.7, mode_stats=_modes(d, case["K"]), log_likelihood=ll, prior_transform=ptw, progress_bar=None,
                  n_steps=1, n_max=(0 if steps == 1 else 1), sample=kern, periodic=per, reflective=ref, verbose=False)
        if steps == 2 and d != 2:
            raise RuntimeError("two-step harness assumes d=2")
        cc = dict(case, masks=list(seq))
        with OwnedRandom(11 + env.SEED, handlers={"rand": h_rand}):
            try:
                out = parallel_mcmc(**kw)
            except Exception as e:
                res.violate(f"kernel:raises:{type(e).__name__}", f"parallel_mcmc raised {e!r}", cc)
                continue
        res.evals += 1
        res.trans += steps
        u, x, logl, bl = out[0], out[1], out[2], out[3]
        if stepno[0] != steps:
            res.bump("kernel_steps_mismatch")
        errs = record_errors(cfg, u, x, logl, bl, blobs_on)
        for field, row, det in errs[:1]:
            res.violate(f"kernel:{field}", f"{kern} accept-masks {seq}: walker {row} is not a coherent record afterwards: {det}", cc)
        moved = 0
        props = np.array(proposals).reshape(steps, nw, d) if len(proposals) == steps * nw else None
        for i in range(nw):
            cands = [u0[i]] + ([props[s][i] for s in range(steps)] if props is not None else [])
            if not any(np.array_equal(u[i], c) for c in cands):
                res.violate("kernel:foreign-position", f"{kern} masks {seq}: walker {i} ends at a position that is neither its old one nor one of its own proposals", cc)
            if not np.array_equal(u[i], u0[i]):
                moved += 1
        if not np.array_equal(kw["u"], u0):
            res.violate("kernel:input-mutated", "parallel_mcmc modified its input arrays", cc)
        res.outcome((kern, blobs_on, bnd, seq, tuple(np.asarray(u).round(12).ravel())), nontrivial=moved > 0)
    res.states += len(seqs) * steps
    res.traces += len(seqs)
    res.sample({"kernel": kern, "blobs": blobs_on, "boundary": bnd, "mask_sequences": len(seqs), "example_mask": list(seqs[len(seqs) // 2])}, cap=1)
    return res


def run_hole(case):
    """Prior-sampling mutation with zero-likelihood draws: all masks x all replacement answers."""
    from tempest import Sampler

    res = Res()
    n, blobs_on, fr = case["n"], case["blobs"], 0.5
    only = case.get("only")
    combos = []
    for mask in itertools.product([0, 1], repeat=n):  # 1 = falls in the -inf region
        inf = [i for i in range(n) if mask[i]]
        fin = [i for i in range(n) if not mask[i]]
        if not inf or not fin:
            combos.append((mask, None))
            continue
        for ans in itertools.product(fin, repeat=len(inf)):
            combos.append((mask, ans))
    if only:
        combos = [(tuple(only[0]), None if only[1] is None else tuple(only[1]))]
    cfg = dict(prior="affine", target=None, shift=0.0)
    for mask, ans in combos:
        # a batch without any finite draw is drawn again: the scripted second batch has one -inf row (so replacement happens too)
        mask2 = tuple([1] + [0] * (n - 1)) if all(mask) else None
        if all(mask):
            res.bump("all_inf_masks_with_redraw")
        hole = targets.Hole(fr, slope=0.3, blobs=blobs_on)
        s = Sampler(targets.pt_affine, hole, n_dim=2, n_particles=n, clustering=False, blobs_dtype="float64" if blobs_on else None)
        U1 = np.array([[(0.75 if mask[i] else 0.25) + 0.01 * i, 0.1 + 0.17 * i] for i in range(n)])
        U2 = None if mask2 is None else np.array([[(0.8 if mask2[i] else 0.2) + 0.013 * i, 0.15 + 0.11 * i] for i in range(n)])
        U = U1 if mask2 is None else U2
        eff_mask = mask if mask2 is None else mask2
        rec = []
        ncall = [0]

        def h_rand(t, *a, **k):
            if a == (n, 2):
                ncall[0] += 1
                if ncall[0] == 1:
                    return U1.copy()
                return (U2 if U2 is not None else U1).copy()
            return OwnedRandom.PASS

        eff_ans = ans
        if mask2 is not None:
            eff_ans = (1,)  # the single -inf row of the second batch is replaced by row 1

        def h_choice(t, a, size=None, replace=True, p=None):
            rec.append((np.array(a), size))
            if eff_ans is None:
                return OwnedRandom.PASS
            return np.array(eff_ans, dtype=int)

        cc = dict(case, only=[list(mask), None if ans is None else list(ans)])
        with OwnedRandom(5, handlers={"rand": h_rand, "choice": h_choice}):
            try:
                s._core._initialize_fresh()
                s.sample()
            except Exception as e:
                res.violate(f"hole:raises:{type(e).__name__}", f"sample() raised {e!r} with -inf mask {mask}", cc)
                continue
        res.evals += 1
        res.trans += 5
        cur = s.state._current
        want = U.copy()
        if eff_ans is not None:
            inf = [i for i in range(n) if eff_mask[i]]
            for j, i in enumerate(inf):
                want[i] = U[eff_ans[j]]
        for where, (u, x, ll, bl) in (("current", (cur["u"], cur["x"], cur["logl"], cur["blobs"])),
                                      ("history", (s.state._history["u"][-1], s.state._history["x"][-1], s.state._history["logl"][-1],
                                                   s.state._history["blobs"][-1] if blobs_on else None))):
            if not np.array_equal(u, want):
                res.violate(f"hole:{where}:u", f"mask {mask} answer {ans}: unit-cube rows are not the drawn rows with -inf ones replaced by the chosen finite ones", cc)
            for i in range(n):
                xi = targets.pt_affine(u[i])
                v = hole(xi)
                li, bi = (v if blobs_on else (v, None))
                if not np.array_equal(xi, x[i]) or not (li == ll[i]) or (blobs_on and not (bi == float(np.ravel(bl[i])[0]))):
                    res.violate(f"hole:{where}:record", f"mask {mask} answer {ans}: particle {i} is not a whole record (x/logl/blob do not belong to its u)", cc)
                    break
        res.outcome((n, blobs_on, mask, ans), nontrivial=ans is not None)
    res.states += len(combos)
    res.traces += 1
    res.sample({"n": n, "blobs": blobs_on, "mask_answer_pairs": len(combos)}, cap=1)
    return res


def run_pipe(case):
    """Deviation-bounded tree of runs for one configuration, coherence monitor on every step."""
    res = Res()
    cfg = case["cfg"]
    digests = set()

    def one(symbols):
        p = Probe(cfg, symbols=symbols, base=case["base"], monitors=[coherent_monitor()])
        p.run()
        res.evals += 1
        res.states += p.events
        res.trans += p.events
        res.traces += 1
        if p.exc is not None:
            res.bump("aborted_runs")
            res.bump("aborted:" + type(p.exc).__name__)
        for key, msg, det in p.viol[:3]:
            res.violate(key, msg + f" [cfg={ {k: v for k, v in cfg.items()} } symbols={symbols}]", dict(kind="pipe1", cfg=cfg, base=case["base"], symbols={str(k): v for k, v in symbols.items()}))
        if p.completed:
            # everything later returned to the user
            want_blobs = p.cfg["eval"] in ("blobs", "poolobj_blobs")
            for flags in itertools.product([False, True], repeat=3):
                rs, trim, rb = flags
                with OwnedRandom(3):
                    try:
                        out = p.sampler.posterior(resample=rs, trim_importance_weights=trim, return_blobs=rb)
                    except Exception as e:
                        res.bump("posterior_raises")
                        continue
                x, w, ll = out[0], out[1], out[2]
                bl = out[3] if (rb and want_blobs and len(out) > 3) else None
                f = TARGETS[p.cfg["target"]]
                bad = None
                if not (len(x) == len(ll)):
                    bad = f"x has {len(x)} rows, logl {len(ll)}"
                else:
                    for i in range(len(x)):
                        if not (f(x[i]) == ll[i]) or (bl is not None and not (targets.blob_expected(x[i], p.cfg) == float(np.ravel(bl[i])[0]))):
                            bad = f"row {i}: logl/blob do not belong to x"
                            break
                if bad:
                    res.violate("pipe:posterior:record", f"posterior(resample={rs}, trim={trim}, return_blobs={rb}): {bad}",
                                dict(kind="pipe1", cfg=cfg, base=case["base"], symbols={str(k): v for k, v in symbols.items()}))
            d = p.sampler.state.get_history("logl", flat=True)
            digests.add(hash(d.tobytes()))
        return p.iters

    n, capped = deviation_tree(one, alphabet=("a", "b"), max_dev=case["max_dev"], max_runs=case.get("max_runs"))
    if capped:
        res.bump("run_cap_hit")
    for dg in digests:
        res.outcome(("run", dg))
    res.sample({"cfg": cfg, "runs": n, "distinct_run_digests": len(digests)}, cap=1)
    return res


def run_pipe1(case):
    c = dict(case)
    c["max_dev"] = 0
    res = Res()
    cfg = case["cfg"]
    p = Probe(cfg, symbols=case.get("symbols"), base=case["base"], monitors=[coherent_monitor()])
    p.run()
    res.evals += 1
    res.states += p.events
    res.trans += p.events
    res.outcome(("pipe1", tuple(sorted((k, repr(v)) for k, v in cfg.items())), case["base"]), nontrivial=True)
    if p.exc is not None:
        res.bump("aborted_runs")
    for key, msg, det in p.viol[:3]:
        res.violate(key, msg + f" [cfg={cfg}]", case)
    with p._env():
      if p.completed and not cfg.get("ll_noisy"):
        want_blobs = p.cfg["eval"] in ("blobs", "poolobj_blobs")
        f = TARGETS[p.cfg["target"]]
        for rs, trim, rb in itertools.product([False, True], repeat=3):
            with OwnedRandom(3):
                try:
                    out = p.sampler.posterior(resample=rs, trim_importance_weights=trim, return_blobs=rb)
                except Exception:
                    continue
            x, ll = out[0], out[2]
            bl = out[3] if (rb and want_blobs and len(out) > 3) else None
            ok = len(x) == len(ll) and all(f(x[i]) == ll[i] and (bl is None or targets.blob_expected(x[i], p.cfg) == float(np.ravel(bl[i])[0])) for i in range(len(x)))
            if not ok:
                res.violate("pipe:posterior:record", f"posterior(resample={rs}, trim={trim}, return_blobs={rb}) rows are not whole records", case)
    return res


def run_session(case):
    """All operation sequences (iterate / save to a slot / load a slot) on ONE sampler object, coherence monitors armed,
    plus an accessor oracle (flattened histories and posterior() must consist of whole records) after every operation."""
    from mc import session

    res = Res()
    cfg = dict(case["cfg"])
    if case.get("only"):
        seqs = [tuple(case["only"])]
    elif case.get("patterns"):
        seqs = session.patterns()[case["patterns"][0]::case["patterns"][1]]
    else:
        seqs = list(session.sequences(case["depth"], first=case.get("first"), ops=case.get("ops")))
        if case.get("shard"):
            seqs = seqs[case["shard"][0]::case["shard"][1]]
    for seq in seqs:
        s = session.Session(cfg, case["base"], [coherent_monitor("session")])
        s.run(seq, after_op=session.accessor_oracle)
        res.evals += 1
        res.states += len(seq)
        res.trans += s.p.events
        res.traces += 1
        cc = dict(case, only=list(seq))
        if s.failures:
            res.bump("likelihood_failures_injected", s.failures)
        if s.err is not None:
            res.bump("aborted_sessions")
            res.bump("aborted:" + type(s.err).__name__)
        for key, msg, det in s.p.viol[:2]:
            res.violate(key, msg + f" [one sampler object, operations after 3 iterations: {' '.join(seq)}; cfg={cfg}]", cc)
        res.outcome(("session", tuple(sorted((k, repr(v)) for k, v in cfg.items())), seq), nontrivial=any(o[0] == "L" for o in seq))
    res.sample({"cfg": cfg, "depth": case["depth"], "sequences": len(seqs), "example": list(seqs[len(seqs) // 2]) if seqs else None}, cap=1)
    return res


def run_duo7(case):
    """Two samplers with different options alive in one process, every interleaving of their iterations and queries: record coherence at every
    step boundary of both, and everything either hands out after every operation consists of whole records of its own history."""
    from mc import session

    return session.run_duo(case, lambda: [coherent_monitor("pipe")], oracle=session.accessor_oracle,
                           key_pred=lambda k: not (k.startswith("session:posterior:weights") or k.startswith("session:evidence") or k.startswith("session:trim")))


def run_cross7(case):
    """A checkpoint written under options A resumed by a fresh sampler with options B (other particle count, kernel, resampler, clustering,
    targets of the schedule, evaluation mode, boundaries): record coherence at every step boundary of the resumed run, loaded history untouched."""
    from mc import session
    return session.run_cross_resume(case, lambda: [coherent_monitor("pipe", resumed=True)])


KINDS = {"cross": run_cross7, "duo": run_duo7, "session": run_session, "kernel": run_kernel, "hole": run_hole, "pipe": run_pipe, "pipe1": run_pipe1}

FACTORS = [
    ("sample", ["tpcn", "rwm"]),
    ("resample", ["mult", "syst"]),
    ("clu", ["off", "on", "on-nonorm", "on-cap2"]),
    ("vv", [None, 0.5]),
    ("eval", ["vec", "scalar", "blobs", "poolobj_blobs"]),
    ("boundary", ["none", "per0", "ref1", "per0ref1", "sets", "dup0", "dup1ref"]),
    ("prior", ["affine", "nonlinear", "affine-list", "affine-index", "identity-view"]),  # incl. a transform returning a list, one writing components by index, one handing back its argument
    ("target", ["gauss", "bimodal", "unequal", "sharp"]),
    ("cluster_every", [1, 3]),
    ("n_steps", [None, 3]),
    ("n_particles", [24, 12]),
    ("blob_dtype", [None, "int64", "float32", "int16"]),  # type of the scalar blob (only with blobs)
    ("blob_form", [None, "two", "vector", "str"]),  # (logl, tag) | (logl, tag, 2 tag) | (logl, array of 3) | (logl, str) (only with blobs)
    ("ll_return", [None, "np.float64", "0d", "readonly"]),  # spelling of the log-likelihood value: Python float | numpy scalar | 0-d array | read-only array (vectorised)
]


def cfg_of(row):
    c = {k: row[k] for k in ("sample", "resample", "vv", "eval", "boundary", "prior", "target", "cluster_every", "n_steps", "n_particles", "blob_dtype", "blob_form", "ll_return")}
    if c["blob_form"] == "str":
        c["blob_dtype"] = None
    c["n_total"] = 4 * row["n_particles"]
    clu = row["clu"]
    c["clustering"] = clu != "off"
    c["normalize"] = clu != "on-nonorm"
    c["n_max_clusters"] = 2 if clu == "on-cap2" else None
    return c


def plan(ctx):
    th = ctx.thorough
    unit = []
    for kern in ("tpcn", "rwm"):
        for blobs in (False, True):
            for bnd in ("none", "per0", "ref1", "per0ref1"):
                for prior in ("affine", "nonlinear"):
                    for K in (1, 2):
                        unit.append({"kind": "kernel", "d": 2, "kernel": kern, "blobs": blobs, "boundary": bnd, "prior": prior, "steps": 2, "K": K})
    for n in (2, 3, 4):
        for blobs in (False, True):
            unit.append({"kind": "hole", "n": n, "blobs": blobs})
    ctx.explore("unit", unit)
    sess = []
    for cfg in (dict(n_particles=8, d=1, ess_ratio=1.0, n_total=10 ** 6, eval="blobs", clustering=False, resample="mult"),
                dict(n_particles=8, d=2, ess_ratio=1.0, n_total=10 ** 6, eval="scalar", clustering=True, resample="syst", sample="rwm")):
        if th or cfg["d"] == 1:  # quick: the exhaustive part on the first configuration only; the longer patterns on both
            for sh in range(32):
                sess.append({"kind": "session", "cfg": cfg, "base": ctx.seed, "depth": 7 if th else 5, "shard": [sh, 32]})
        for sh in range(8):
            sess.append({"kind": "session", "cfg": cfg, "base": ctx.seed, "depth": 9, "patterns": [sh, 8]})
    # iterations aborted by a failure of the user's likelihood at its 1st / 4th / 11th evaluation: every sequence over {S, X1, X4, X11}
    from mc import session as _s
    for cfg in (dict(n_particles=8, d=1, ess_ratio=1.0, n_total=10 ** 6, eval="blobs", clustering=False, resample="mult"),
                dict(n_particles=8, d=2, ess_ratio=2.0, n_total=10 ** 6, eval="vec", clustering=True, resample="syst", sample="rwm"),
                dict(n_particles=8, d=2, ess_ratio=1.0, n_total=10 ** 6, eval="scalar", clustering=True, resample="syst", sample="tpcn", target="hole")):
        for sh in range(4):
            sess.append({"kind": "session", "cfg": cfg, "base": ctx.seed, "depth": 4 if th else 3, "ops": _s.FAIL_OPS, "shard": [sh, 4]})
    ctx.explore("session-sequences", sess)
    dbase = dict(n_particles=8, d=2, ess_ratio=1.0, n_total=10 ** 6, eval="blobs", clustering=True, resample="syst")
    duo = [{"kind": "duo", "cfg": dict(dbase, **a), "cfg_b": b, "base": ctx.seed, "depth": 4 if th else 3, "shard": [sh, 2]}
           for a, b in (({}, {"eval": "scalar", "d": 1, "clustering": False}), ({"boundary": "per0ref1"}, {"boundary": "none", "prior": "nonlinear"}), ({"sample": "rwm", "blob_form": "vector"}, {"sample": "tpcn", "blob_dtype": "int64"}),
                        ({"eval": "vec"}, {"eval": "vec", "target": "bimodal", "n_particles": 12}))
           for sh in range(2)]
    ctx.explore("two-samplers-interleaved", duo)
    # exact ties in logL (plateau) with blobs, and a likelihood whose value depends on the caller's numpy error state
    sp = [{"kind": "pipe1", "cfg": dict(n_particles=16, d=2, n_total=64, target="plateau", eval=ev, sample=k, blob_form=bf, clustering=cl), "base": ctx.seed + b}
          for ev in ("blobs", "poolobj_blobs") for k in ("tpcn", "rwm") for bf in (None, "vector") for cl in (False, True) for b in ((0, 3) if th else (0,))]
    sp += [{"kind": "pipe1", "cfg": dict(n_particles=16, d=2, n_total=64, target="errsens", eval=ev, sample=k, env="over-raise", clustering=cl), "base": ctx.seed + b}
           for ev in ("scalar", "blobs", "vec") for k in ("tpcn", "rwm") for cl in (False, True) for b in ((0, 3) if th else (0,))]
    sp += [{"kind": "pipe1", "cfg": dict(n_particles=16, d=2, n_total=64, target=t, eval=ev, sample=k, ll_noisy=True, clustering=cl, boundary=bd), "base": ctx.seed + b}
           for t in ("gauss", "corner") for ev in ("blobs", "poolobj_blobs") for k in ("tpcn", "rwm") for cl in (False, True) for bd in ("none", "per0") for b in ((0, 3) if th else (0,))]
    ctx.explore("exact-ties-and-error-state", sp)
    from mc.pipeline import LARGE
    ctx.explore("large-scopes", [{"kind": "pipe1", "cfg": c, "base": ctx.seed + b} for c in LARGE for b in ((0, 4) if th else (0,))])
    from mc import session as _s2
    ctx.explore("resume-with-other-options", [{"kind": "cross", "cfg": dict(n_particles=16, d=2, n_total=48, eval="scalar", clustering=False), "pair": list(pr), "base": ctx.seed + b} for pr in _s2.CROSS for b in ((0, 5) if th else (0,))])
    ctx.bounds.update({"session": {"alphabet": ["S (iterate)", "V0/V1 (save_state to slot)", "L0/L1 (load_state from slot)"], "depth": "all sequences to depth 7 (thorough) / 5 (quick) + 57 longer save/branch/roll-back patterns (length <= 9)", "warm_iterations": 3}})
    rows = lattice.covering_array(FACTORS, strength=3 if th else 2, seed=ctx.seed)
    cov, tot = lattice.count_covered(rows, FACTORS, 3 if th else 2)
    ctx.bounds.update({"configs": len(rows), "covering_strength": 3 if th else 2, "tuples_covered": f"{cov}/{tot}", "max_deviations": 2 if th else 1,
                       "tape_alphabet": ["a", "b"], "n_particles": [24, 12], "d": 2})
    if cov != tot:
        ctx.cap(f"covering array covers {cov}/{tot} tuples")
    cases = [{"kind": "pipe", "cfg": cfg_of(r), "base": ctx.seed, "max_dev": 2 if th else 1, "max_runs": 80 if th else 14} for r in rows]
    agg = ctx.explore("pipeline", cases)
    if agg.extra.get("run_cap_hit"):
        ctx.cap(f"per-configuration run cap hit in {agg.extra['run_cap_hit']} configurations (deviation tree truncated; 0-deviation and the earliest 1-deviation runs are complete)")
