"""C18 - Invalid configurations are rejected up front; valid ones always run.

Invalid: every documented constraint violated one factor at a time on top of several valid base
configurations - the constructor must raise before any likelihood / prior call.
Valid: a covering array (pairwise quick / 3-wise thorough) of the product of constructor options;
each row must construct, run to completion, and satisfy the run post-conditions.  A failing row
is minimised towards the defaults so the reported key is the minimal interacting option set.
"""
import numpy as np

from mc import env
from mc.core import Res
from mc import targets, lattice
from mc.pipeline import Probe
from mc.monitors import terminal_errors
from mc.refmodels.fs import MemFS
from mc.tape import OwnedRandom

LEVEL = "model_checking"
RULE = ("invalid: (base configuration x one violated constraint) full product; valid: rows of a strength-t covering array over the constructor "
        "options, each executed as a complete real run under a fixed tape; a state = one configuration; non-trivial = configuration that differs "
        "from the defaults in >=2 options; distinct by option tuple.")
ASSUMPTIONS = ["only the constraints enumerated in the property are treated as invalid (e.g. cluster_every=0 is outside the list)",
               "valid rows are run at n_dim=2 on three targets (unimodal, two equal modes, two modes of unequal height) with n_particles in {16,24,48}, n_total=4*n_particles, under two deterministic tapes per VERIF_SEED"]


class Counter:
    def __init__(self):
        self.n = 0


def _bases():
    return [
        dict(n_dim=2),
        dict(n_dim=3, n_particles=16, sample="rwm", resample="syst", clustering=False),
        dict(n_dim=2, n_particles=8, volume_variation=0.5, periodic=[0], reflective=[1]),
        dict(n_dim=1, n_particles=4, blobs_dtype="float64", cluster_every=2, n_max_clusters=2),
    ]


INVALID = [
    ("n_dim", [0, -1, 2.0, "2", None]),
    ("n_particles", [0, -3, 2.5, "8"]),
    ("ess_ratio", [0, -1, "2"]),
    ("volume_variation", [0, -0.5, "x"]),
    ("sample", ["hmc", "", None]),
    ("resample", ["sys", "", None]),
    ("vectorize+blobs", [True]),
    ("periodic", ["overlap", [-1], "d", [0.5], ["0"]]),
    ("reflective", ["overlap", [-1], "d", [0.5], ["0"]]),
]


def run_invalid(case):
    from tempest import Sampler

    res = Res()
    for bi, base in enumerate(_bases()):
        for name, vals in INVALID:
            for v in vals:
                kw = dict(base)
                d = kw["n_dim"]
                if name == "vectorize+blobs":
                    kw["vectorize"] = True
                    kw["blobs_dtype"] = "float64"
                elif name in ("periodic", "reflective"):
                    other = "reflective" if name == "periodic" else "periodic"
                    if v == "overlap":
                        kw[name] = [0]
                        kw[other] = [0]
                    elif v == "d":
                        kw[name] = [d]
                        kw.pop(other, None)
                    else:
                        kw[name] = v
                        kw.pop(other, None)
                else:
                    kw[name] = v
                cnt = Counter()

                def ll(x, _c=cnt):
                    _c.n += 1
                    return 0.0

                def pt(u, _c=cnt):
                    _c.n += 1
                    return u

                label = f"{name}={v!r}"
                cc = dict(kind="invalid", only=[bi, name, repr(v)])
                if case.get("only") and case["only"] != [bi, name, repr(v)]:
                    continue
                raised = None
                try:
                    with OwnedRandom(1):
                        Sampler(pt, ll, **kw)
                except Exception as e:
                    raised = e
                res.evals += 1
                res.states += 1
                res.trans += 1
                if raised is None:
                    res.violate(f"invalid:accepted:{name}={v!r}", f"constructor accepted invalid configuration {label} (base {bi}: {base})", cc)
                elif cnt.n:
                    res.violate(f"invalid:called-user-code:{name}", f"{cnt.n} likelihood/prior calls happened before {label} was rejected", cc)
                res.outcome((bi, name, repr(v), type(raised).__name__), nontrivial=True)
    res.sample({"base": _bases()[1], "violated": "n_particles=2.5", "expected": "constructor raises, 0 user calls"}, cap=1)
    return res


FACTORS = [
    ("sample", ["tpcn", "rwm"]),
    ("resample", ["mult", "syst"]),
    ("clu", ["on", "off", "on-nonorm"]),
    ("cluster_every", [1, 2, 3, 5]),
    ("n_max_clusters", [None, 1, 2]),
    ("split_threshold", [1.0, 0.5, 2.0]),
    ("vv", [None, 0.5]),
    ("n_steps", [None, 1, 3]),
    ("n_max_steps", [None, 2]),
    ("eval", ["scalar", "vec", "blobs"]),
    ("pool", [None, 1, "obj", 2]),
    ("boundary", ["none", "per0", "ref1", "per0ref1", "empty", "tuples", "sets", "dup0", "dup1ref"]),
    ("callable", ["plain", "bound-temp", "partial"]),  # likelihood / prior transform as plain callables, bound methods of an otherwise unreferenced object, functools.partial
    ("save_every", [None, 1, 3]),
    ("output_label", [None, "x"]),
    ("target", ["gauss", "bimodal", "unequal"]),
    ("n_particles", [24, 16, 48]),
    ("ess_ratio", [2.0, 1.0, 4.0]),
]
DEFAULTS = {name: vals[0] for name, vals in FACTORS}


def cfg_of(row):
    c = {k: row[k] for k in ("sample", "resample", "cluster_every", "n_max_clusters", "split_threshold", "vv", "n_steps", "n_max_steps", "boundary", "target", "n_particles", "ess_ratio", "callable")}
    c["n_total"] = 4 * row["n_particles"]
    if row.get("max_iters"):
        c["max_iters"] = row["max_iters"]
    clu = row["clu"]
    c["clustering"] = clu != "off"
    c["normalize"] = clu != "on-nonorm"
    ev, pool = row["eval"], row["pool"]
    c["eval"] = ev
    if pool is not None and ev != "vec":
        if pool == "obj":
            c["eval"] = "poolobj_blobs" if ev == "blobs" else "poolobj"
        else:
            c["eval"] = "poolint"
            c["pool_n"] = pool
            if ev == "blobs":
                c["eval"] = "poolint"  # real pools are exercised with the scalar likelihood
    elif pool is not None and ev == "vec" and pool != "obj":
        c["pool_n_ignored"] = pool
    if row["save_every"] is not None:
        c["save_every"] = row["save_every"]
        c["output_dir"] = "/memfs/out"
    if row["output_label"] is not None:
        c["output_label"] = row["output_label"]
    return c


def _attempt(row, base):
    cfg = cfg_of(row)
    fs = MemFS() if row["save_every"] is not None else None
    try:
        p = Probe(cfg, base=base, fs=fs)
    except Exception as e:
        return ("construct", e, None)
    p.run()
    if p.exc is not None:
        return ("run", p.exc, p)
    errs = terminal_errors(p)
    if not errs:  # a run that completed has sampled the prior's support: every stored particle lies in the unit cube
        U = np.concatenate([np.asarray(b, dtype=float).reshape(len(b), -1) for b in p.state._history["u"]])
        if not (np.all(U >= 0.0) and np.all(U <= 1.0)):
            errs = [("post:particles-outside-the-unit-cube", f"{int(np.sum((U < 0) | (U > 1)))} stored unit-cube coordinates lie outside [0,1] (min {U.min()!r}, max {U.max()!r})")]
    if errs:
        return ("post", errs, p)
    try:
        with OwnedRandom(3):
            out = p.sampler.posterior()
            ev = p.sampler.evidence()
        assert len(out) == 3 and np.isfinite(ev[0])
    except Exception as e:
        return ("posterior", e, p)
    # the sampler stays usable after run(): one more iteration, and a further run() with a larger target, must not raise
    q = p
    q.exc = None
    q.completed = False
    q.cfg = dict(q.cfg, n_total=int(1.5 * q.cfg["n_total"]))
    try:
        from mc import pipeline as _pl
        prev = _pl._ACTIVE
        _pl._ACTIVE = q
        try:
            with env.quiet(), _pl.instrumented(), q.tape, q._mount():
                q.sampler.sample()
                q.sampler.run(n_total=q.cfg["n_total"], progress=False)
        finally:
            _pl._ACTIVE = prev
    except Exception as e:
        return ("reuse-after-run", e, q)
    errs = terminal_errors(q)
    if errs:
        return ("reuse-post", errs, q)
    if fs is not None and not any(k.endswith("_final.state") for k in fs.files):
        return ("post", [("post:no-final-checkpoint", f"save_every={row['save_every']} but no final checkpoint was written: {sorted(fs.files)}")], p)
    if fs is not None:
        # a valid configuration must also run to completion when a FRESH sampler resumes one of its checkpoints
        cks = sorted((k for k in fs.files if k.endswith(".state") and not k.endswith("_final.state")), key=lambda s_: int(s_.rsplit("_", 1)[1].split(".")[0]))
        for path in ([cks[0], cks[len(cks) // 2], cks[-1]] if cks else []):
            rcfg = dict(cfg)
            rcfg.pop("save_every", None)
            q = Probe(rcfg, base=base + 17, fs=fs, iter_offset=int(path.rsplit("_", 1)[1].split(".")[0]))
            q.run(resume_state_path=path)
            if q.exc is not None:
                return ("resume", q.exc, q)
            errs = terminal_errors(q)
            if errs:
                return ("resume-post", errs, q)
    return None


def _sig(fail):
    stage, what, _ = fail
    if stage in ("post", "resume-post", "reuse-post"):
        return f"{stage}:{what[0][0]}"
    return f"{stage}:{type(what).__name__}"


def run_valid(case):
    res = Res()
    row = case["row"]
    fail = _attempt(row, case["base"])
    res.evals += 1
    res.states += 1
    res.traces += 1
    res.trans += 1
    nondef = sorted(k for k in row if row[k] != DEFAULTS.get(k, row[k]))
    res.outcome(tuple(sorted((k, repr(v)) for k, v in row.items())), nontrivial=len(nondef) >= 2)
    if fail is None:
        return res
    sig = _sig(fail)
    # minimise towards the defaults (one factor at a time, repeat until no change)
    cur = dict(row)
    if not case.get("no_minimise"):
        changed = True
        while changed:
            changed = False
            for k in sorted(cur):
                if cur[k] == DEFAULTS[k]:
                    continue
                trial = dict(cur)
                trial[k] = DEFAULTS[k]
                f2 = _attempt(trial, case["base"])
                res.evals += 1
                if f2 is not None and _sig(f2) == sig:
                    cur = trial
                    changed = True
    f3 = _attempt(cur, case["base"])
    if f3 is None or _sig(f3) != sig:
        cur, f3 = dict(row), fail
    minimal = ",".join(f"{k}={cur[k]!r}" for k in sorted(cur) if cur[k] != DEFAULTS.get(k, cur[k]))
    stage, what, _ = f3
    msg = f"valid configuration [{minimal or 'defaults'}] failed at {stage}: {what!r}"
    res.violate(f"valid:{sig}:{minimal}", msg, {"kind": "valid", "row": cur, "base": case["base"], "no_minimise": True})
    return res


# option -> other scalar spellings of a valid value (the documented types are int / float / bool)
SPELLINGS = {
    "n_dim": ["np.int64", "np.int32", "float", "0-d int array"], "n_particles": ["np.int64", "np.int32", "float", "np.uint8"],
    "ess_ratio": ["int", "np.float32", "np.int64", "0-d float array"], "volume_variation": ["np.float32", "np.float64", "int"],
    "n_steps": ["np.int64", "float", "np.int32"], "n_max_steps": ["np.int64", "float"], "cluster_every": ["np.int64", "np.int32", "float"],
    "n_max_clusters": ["np.int64", "float"], "split_threshold": ["int", "np.float32", "np.int64"], "random_state": ["np.int64", "np.int32", "np.uint8"],
    "pool": ["np.int64", "np.int32"], "clustering": ["np.bool_", "bool-as-int"], "normalize": ["np.bool_", "bool-as-int"], "vectorize": ["np.bool_", "bool-as-int"],
    "n_total": ["np.int64", "float", "np.int32"], "save_every": ["np.int64", "np.int32"],
}
SPELL_BASES = [
    dict(n_particles=16, d=2, n_total=48, ess_ratio=2.0, vv=None, n_steps=2, n_max_steps=20, cluster_every=2, n_max_clusters=3, split_threshold=1.0, random_state=7, clustering=True, target="bimodal"),
    dict(n_particles=12, d=1, n_total=36, ess_ratio=1.0, vv=1.0, n_steps=3, n_max_steps=30, cluster_every=1, n_max_clusters=2, split_threshold=2.0, random_state=3, clustering=True, eval="vec", target="gauss"),
    dict(n_particles=16, d=2, n_total=48, ess_ratio=2.0, vv=None, n_steps=2, n_max_steps=20, cluster_every=1, n_max_clusters=4, split_threshold=1.0, random_state=5, clustering=False, eval="poolint", pool_n=2, sample="rwm"),
]


def run_spell(case):
    """One option of a valid base configuration given as another scalar type carrying the SAME value.  Either the constructor rejects it up
    front (before any likelihood call, with ValueError/TypeError), or the configuration is valid and must run to completion, satisfy the
    run post-conditions and give the same run as the plain spelling."""
    from mc.pipeline import digest, snap

    res = Res()
    base = dict(SPELL_BASES[case["base_cfg"]])
    fs = None
    if case["option"] == "save_every":
        base.update(save_every=2, output_dir="/memfs/out")
    opt, sp = case["option"], case["spelling"]
    runs = []
    for spell in ({}, {opt: sp}):
        cfg = dict(base, spell=spell)
        fs = MemFS() if "save_every" in base else None
        try:
            p = Probe(cfg, base=case["base"], fs=fs)
        except (ValueError, TypeError) as e:
            runs.append(("rejected", e, None))
            continue
        except Exception as e:
            runs.append(("construct-crash", e, None))
            continue
        n0 = p.ll.n
        p.run()
        runs.append(("ran", p, n0))
    res.evals += 2
    res.states += 1
    res.trans += 1
    plain, spelled = runs
    cc = dict(case)
    tag = f"{opt} given as {sp} (same value as in the valid configuration {base})"
    res.outcome((case["base_cfg"], opt, sp, spelled[0]), nontrivial=True)
    res.bump(f"spelling:{spelled[0]}")
    if plain[0] != "ran" or plain[1].exc is not None or terminal_errors(plain[1]):
        res.bump("plain_spelling_fails")  # owned by the covering-array phase
        return res
    if spelled[0] == "rejected":
        return res  # invalid by the library's own definition of the option type: rejected up front
    if spelled[0] == "construct-crash":
        res.violate(f"spelling:{opt}:{sp}:construct:{type(spelled[1]).__name__}", f"{tag}: the constructor neither accepted nor cleanly rejected it: {spelled[1]!r}", cc)
        return res
    q = spelled[1]
    if q.exc is not None:
        res.violate(f"spelling:{opt}:{sp}:run:{type(q.exc).__name__}", f"{tag}: accepted by the constructor, then run() raised {q.exc!r}", cc)
        return res
    errs = terminal_errors(q)
    if errs:
        res.violate(f"spelling:{opt}:{sp}:post:{errs[0][0]}", f"{tag}: accepted, but the run post-conditions fail: {errs[0][1]}", cc)
        return res
    a, b = plain[1], q
    ha, hb = a.state._history, b.state._history
    same = all(len(ha[k]) == len(hb[k]) and all(np.array_equal(np.asarray(x, dtype=float), np.asarray(y, dtype=float)) for x, y in zip(ha[k], hb[k])) for k in ("u", "x", "logl", "beta", "logz"))
    if not same:  # values, not storage types: an int-typed option may legitimately leave int-typed bookkeeping entries
        res.violate(f"spelling:{opt}:{sp}:different-run", f"{tag}: accepted, but the run differs from the run with the plain spelling ({a.iters} vs {b.iters} iterations, "
                    f"logZ {a.state.get_current('logz')!r} vs {b.state.get_current('logz')!r})", cc)
    return res


KINDS = {"spell": run_spell, "invalid": run_invalid, "valid": run_valid}


def plan(ctx):
    th = ctx.thorough
    ctx.explore("invalid-one-factor", [{"kind": "invalid"}])
    strength = 3 if th else 2
    rows = lattice.covering_array(FACTORS, strength=strength, seed=ctx.seed)
    cov, tot = lattice.count_covered(rows, FACTORS, strength)
    ctx.bounds.update({"valid_rows": len(rows), "covering_strength": strength, "tuples_covered": f"{cov}/{tot}", "factors": {k: [repr(x) for x in v] for k, v in FACTORS}})
    if cov != tot:
        ctx.cap(f"covering array covers {cov}/{tot}")
    cases = [{"kind": "valid", "row": r, "base": ctx.seed + 100 * b} for r in rows for b in range(2)]
    # scale: legal values far from the small ones of the array (a long warm-up: ess_ratio in the hundreds; hundreds of particles; long dynamic runs)
    for over in ({"ess_ratio": 120.0, "n_particles": 4, "clu": "off"}, {"n_particles": 600, "ess_ratio": 0.25}):
        cases.append({"kind": "valid", "row": dict(DEFAULTS, max_iters=900, **over), "base": ctx.seed, "no_minimise": True})
    agg = ctx.explore("valid-covering-array", cases)
    ctx.res.sample({"valid_row": rows[0]})
    opt_key = {"n_dim": "d", "volume_variation": "vv", "pool": "pool_n"}
    sp = [{"kind": "spell", "base_cfg": b, "option": o, "spelling": s_, "base": ctx.seed} for b in range(len(SPELL_BASES)) for o, ss in SPELLINGS.items() for s_ in ss
          if (o in ("n_total", "save_every", "n_dim", "vectorize", "normalize") or SPELL_BASES[b].get(opt_key.get(o, o)) is not None)
          and not (o == "pool" and SPELL_BASES[b].get("eval") != "poolint")]
    ctx.bounds["option_spellings"] = {k: v for k, v in SPELLINGS.items()}
    ctx.explore("option-spellings", sp)
