"""C17 - Accessors never alias internal state; committed history is append-only.

Explicit-state exploration of ALL sequences of public StateManager operations up to a depth
(set/update/commit, every getter, export, import, save/load), executed on the real object next
to a deep-copy reference model.  After every accessor the returned arrays are checked with
np.shares_memory against every internal array and then overwritten by the caller ("scribbled");
after every operation the internal state must still equal the model.  A second layer does the
same around real sampler iterations with a differential (twin-run) oracle.
"""
import itertools

import numpy as np

from mc import env
from mc.core import Res
from mc.tape import OwnedRandom
from mc.refmodels.statemodel import Model, same, cp
from mc.refmodels.fs import MemFS, mounted
from mc.pipeline import Probe, snap, digest

LEVEL = "model_checking"
RULE = ("all sequences over a 22-operation alphabet of public StateManager calls up to depth D (operations whose documented precondition fails are "
        "disabled), replayed from a fresh object; a state = (operation history); a transition = one real operation + scribble + comparison with the "
        "deep-copy model; non-trivial = sequence containing a commit, an accessor and a later mutation/commit; sampler layer: all accessor sequences "
        "up to depth d between real iterations, twin-run differential oracle.")
ASSUMPTIONS = ["copy=False setters are an explicit opt-in to sharing and are outside the property", "values never influence control flow of these methods (only None-ness, lengths and key membership do)"]

OPS = ["set_u", "set_logl", "upd_bz", "upd_all", "commit", "get_current", "get_current_u", "get_current_logl", "get_hist_u", "get_hist_logl",
       "get_hist_u_flat", "get_hist_logl_flat", "get_hist_logl_idx", "get_last_u", "get_last_logl", "results", "logw", "to_dict",
       "update_from_dict", "from_dict", "save_load", "get_hist_beta", "save_excl", "set_u_roview"]
ACCESSORS = {o for o in OPS if o.startswith("get_") or o in ("results", "logw", "to_dict")}
SENT = 777.0


def _val(kind, i):
    if kind == "u":
        return np.array([[0.1 + 0.01 * i], [0.2 + 0.01 * i]])
    if kind == "logl":
        return np.array([-(1.0 + i), -(0.5 + i)])
    if kind == "beta":
        return min(1.0, 0.125 * i)
    if kind == "logz":
        return -0.25 * i


def _arrays(o, acc=None):
    acc = [] if acc is None else acc
    if isinstance(o, np.ndarray):
        acc.append(o)
    elif isinstance(o, dict):
        for v in o.values():
            _arrays(v, acc)
    elif isinstance(o, (list, tuple)):
        for v in o:
            _arrays(v, acc)
    return acc


def _internal(sm):
    """Every ndarray reachable from the object's attributes: current, history and ANY cache (present or future)."""
    return _arrays([v for v in vars(sm).values()])


def _internal_sampler(s):
    out = _internal(s.state)
    core = s._core
    for name, v in vars(core).items():
        if name in ("state", "config", "reweighter", "trainer", "resampler", "mutator", "pbar"):
            continue
        out += _arrays(v)
    return out


def _scribble(o):
    """The caller overwrites everything it was handed (applied identically to the model's copy)."""
    if isinstance(o, np.ndarray):
        if o.size and o.flags.writeable and o.dtype.kind == "f":
            o[...] = SENT
    elif isinstance(o, dict):
        for k in list(o):
            _scribble(o[k])
        if "_history" in o and isinstance(o["_history"], dict) and "u" in o["_history"]:
            o["_history"]["u"].append(np.array([[SENT], [SENT]]))
        if "_current" in o and isinstance(o["_current"], dict):
            o["_current"]["steps"] = 424242
    elif isinstance(o, list):
        for v in o:
            _scribble(v)


def _consistent(m):
    h = m.hist
    T = len(h["beta"])
    return len(h["logl"]) == T and len(h["logz"]) == T and all(isinstance(b, np.ndarray) and b.ndim == 1 for b in h["logl"])


def _expected_results(m):
    from tempest.state_manager import StateManager

    fresh = StateManager.from_dict(m.export())
    return fresh.compute_results()


def run_seq(seq, res, cc, fs):
    """Execute one operation sequence; returns False if a violation was recorded or an op was disabled."""
    from tempest.state_manager import StateManager

    sm = StateManager(1)
    m = Model(1)
    exported = []  # [(real dict, model dict)]
    last_scribbled = None
    for step, op in enumerate(seq):
        i = step + 1
        ret = None
        exp = None
        T = len(m.hist["beta"])
        try:
            if op == "set_u":
                v = _val("u", i)
                sm.set_current("u", v)
                m.set("u", v)
                v[...] = -5.0  # the caller reuses its buffer afterwards
            elif op == "set_u_roview":
                # a read-only VIEW of a caller-owned buffer: the caller may still write to the buffer afterwards
                base_buf = _val("u", i)
                v = base_buf.view()
                v.flags.writeable = False
                sm.set_current("u", v)
                m.set("u", base_buf)
                base_buf[...] = -7.0
            elif op == "set_logl":
                v = _val("logl", i)
                sm.set_current("logl", v)
                m.set("logl", v)
                v[...] = -5.0
            elif op == "upd_bz":
                d = {"beta": _val("beta", i), "logz": _val("logz", i)}
                sm.update_current(d)
                m.update(d)
            elif op == "upd_all":
                d = {"u": _val("u", i), "logl": _val("logl", i), "beta": _val("beta", i), "logz": _val("logz", i), "iter": i}  # a complete iteration record (as the sampler writes it)
                sm.update_current(d)
                m.update(d)
                d["u"][...] = -5.0
                d["logl"][...] = -5.0
            elif op == "commit":
                before = {k: len(v) for k, v in sm._history.items()}
                sm.commit_current_to_history()
                m.commit()
                for k in sm._history:
                    grew = len(sm._history[k]) - before[k]
                    want = 1 if (k in m.cur and m.cur[k] is not None) else 0
                    if grew != want:
                        res.violate("append-only:commit-growth", f"commit grew history '{k}' by {grew}, expected {want} (sequence {seq[:step + 1]})", cc)
                        return False
            elif op == "get_current":
                ret = sm.get_current()
                exp = cp(m.cur)
            elif op in ("get_current_u", "get_current_logl"):
                k = op.split("_")[-1]
                ret = sm.get_current(k)
                exp = cp(m.cur[k])
            elif op in ("get_hist_u", "get_hist_logl", "get_hist_beta"):
                k = op.split("_")[-1]
                ret = sm.get_history(k)
                exp = np.array(cp(m.hist[k]))
            elif op in ("get_hist_u_flat", "get_hist_logl_flat"):
                k = op.split("_")[2]
                if not m.hist[k]:
                    return None
                ret = sm.get_history(k, flat=True)
                exp = np.concatenate(cp(m.hist[k]))
            elif op == "get_hist_logl_idx":
                if not m.hist["logl"]:
                    return None
                ret = sm.get_history("logl", index=len(m.hist["logl"]) - 1)
                exp = cp(m.hist["logl"][-1])
            elif op in ("get_last_u", "get_last_logl"):
                k = op.split("_")[-1]
                ret = sm.get_last_history(k)
                exp = cp(m.hist[k][-1]) if m.hist[k] else None
            elif op == "results":
                if not _consistent(m) or any(len(set(np.shape(b) for b in v)) > 1 for v in m.hist.values()):
                    return None
                ret = sm.compute_results()
                exp = _expected_results(m)
            elif op == "logw":
                if not _consistent(m):
                    return None
                ret = sm.compute_logw_and_logz(1.0)
                from tempest.state_manager import StateManager as _S
                exp = _S.from_dict(m.export()).compute_logw_and_logz(1.0)
            elif op == "to_dict":
                ret = sm.to_dict()
                exp = m.export()
            elif op == "update_from_dict":
                if not exported:
                    return None
                d, dm = exported[-1]
                sm.update_from_dict(d)
                m.import_(dm)
                _scribble(d)  # the caller still owns the dictionary it passed in
                _scribble(dm)
                last_scribbled = "update_from_dict(arg)"
            elif op == "from_dict":
                if not exported:
                    return None
                d, dm = exported[-1]
                sm = StateManager.from_dict(d)
                m = Model.from_dict(dm)
                _scribble(d)
                _scribble(dm)
                last_scribbled = "from_dict(arg)"
            elif op == "save_load":
                with mounted(fs):
                    sm.save_state("/memfs/s/state.pkl")
                    sm.load_state("/memfs/s/state.pkl")
            elif op == "save_excl":
                # exporting with an exclude list must not touch the live object (whatever the list names)
                with mounted(fs):
                    sm.save_state("/memfs/s/light.pkl", exclude=["u", "pbar"])
            else:
                raise RuntimeError(op)
        except Exception as e:
            res.violate(f"raises:{op}:{type(e).__name__}", f"operation {op} raised {e!r} (sequence {seq[:step + 1]})", cc)
            return False
        res.trans += 1
        if op in ACCESSORS:
            # (0) value, (1) aliasing, (2) scribble
            if not same(_norm(ret), _norm(exp)):
                res.violate(f"return:{op}" + (f":after:{last_scribbled}" if last_scribbled else ""), f"{op} returned a value that differs from the reference model (sequence {seq[:step + 1]})", cc)
                return False
            internal = _internal(sm)
            for r in _arrays(ret):
                if r.size and any(np.shares_memory(r, a) for a in internal):
                    res.violate(f"alias:{op}", f"an array returned by {op} shares memory with internal state (sequence {seq[:step + 1]})", cc)
                    return False
            _scribble(ret)
            last_scribbled = op
            if op == "to_dict":
                em = m.export()
                _scribble(em)
                exported.append((ret, em))
                exported[:] = exported[-2:]
        # (3) internal state still equals the model
        if not (same(sm._current, m.cur) and same(sm._history, m.hist)):
            res.violate(f"mutation-visible:{last_scribbled}", f"after {op}, internal state differs from the deep-copy model: a caller-side mutation through {last_scribbled} became visible (sequence {seq[:step + 1]})", cc)
            return False
        if sm._results_dict is not None and _consistent(m):
            if not same(_norm(sm._results_dict), _norm(_expected_results(m))):
                res.violate(f"cache-stale-or-mutated:{last_scribbled}", f"after {op}, the cached results differ from results recomputed from the model (sequence {seq[:step + 1]})", cc)
                return False
    return True


def _norm(o):
    """Tuples -> lists, numpy scalars -> python, so deep comparison is representation independent."""
    if isinstance(o, tuple):
        return [_norm(v) for v in o]
    if isinstance(o, list):
        return [_norm(v) for v in o]
    if isinstance(o, dict):
        return {k: _norm(v) for k, v in o.items()}
    if isinstance(o, np.generic):
        return o.item()
    return o


def run_prefix(case):
    res = Res()
    fs = MemFS()
    fs.mkdir("/memfs/s", parents=True, exist_ok=True)
    prefix = case["prefix"]
    depth = case["depth"]
    if case.get("exact"):
        seqs = [tuple(prefix)]
    else:
        seqs = None

    def rec(seq):
        ok = run_seq(seq, res, {"kind": "prefix", "prefix": list(seq), "depth": len(seq), "exact": True}, fs)
        res.evals += 1
        if ok is None or ok is False:
            return  # disabled op or violation: do not extend
        res.states += 1
        has_commit = "commit" in seq
        acc_after = any(o in ACCESSORS for o in seq[seq.index("commit"):]) if has_commit else False
        res.outcome(tuple(seq), nontrivial=has_commit and acc_after and seq[-1] not in ACCESSORS)
        if len(seq) < depth:
            for op in OPS:
                rec(seq + (op,))

    if seqs is not None:
        for s in seqs:
            run_seq(s, res, dict(case), fs)
            res.evals += 1
    else:
        rec(tuple(prefix))
    res.traces += 1
    if case.get("sample"):
        res.sample({"prefix": prefix, "depth": depth, "ops": len(OPS)})
    return res


# --------------------------------------------------------------------------------------- sampler layer
S_OPS = ["pickle", "deepcopy", "results", "posterior", "posterior_rs", "posterior_logw", "posterior_raw", "posterior_raw_logw", "to_dict", "get_current", "get_hist_u", "get_hist_logl_flat", "get_last_u", "evidence", "sample_ret"]


def _sampler_run(seq, base, scribble):
    cfg = dict(n_particles=12, d=2, ess_ratio=1.0, n_total=10 ** 6, eval="blobs", clustering=False)
    p = Probe(cfg, base=base)
    p.steps(3)
    if p.exc is not None:
        return None, p
    s = p.sampler
    last_ret = None
    for op in seq:
        with OwnedRandom(99):
            if op in ("pickle", "deepcopy"):
                # the live sampler goes through a pickle round trip / is deep-copied and the COPY carries on: everything read through the public
                # accessors afterwards must be the copy's own, growing, history
                import copy as _copy
                import pickle as _pickle
                s = _pickle.loads(_pickle.dumps(s)) if op == "pickle" else _copy.deepcopy(s)
                p.sampler, p.state = s, s.state
                r = s.results()
            elif op == "results":
                r = s.results()
            elif op == "posterior":
                r = s.posterior(return_blobs=True)
            elif op == "posterior_rs":
                r = s.posterior(resample=True, trim_importance_weights=False)
            elif op == "posterior_logw":
                r = s.posterior(return_logw=True)
            elif op == "posterior_raw":
                r = s.posterior(trim_importance_weights=False, resample=False, return_blobs=True)
            elif op == "posterior_raw_logw":
                r = s.posterior(trim_importance_weights=False, resample=False, return_logw=True)
            elif op == "to_dict":
                r = s.state.to_dict()
            elif op == "get_current":
                r = s.state.get_current()
            elif op == "get_hist_u":
                r = s.state.get_history("u")
            elif op == "get_hist_logl_flat":
                r = s.state.get_history("logl", flat=True)
            elif op == "get_last_u":
                r = s.state.get_last_history("u")
            elif op == "evidence":
                r = s.evidence()
            elif op == "sample_ret":
                r = last_ret if last_ret is not None else s.state.get_current()
        if scribble:
            internal = _internal_sampler(s)
            for a in _arrays(r):
                if a.size and any(np.shares_memory(a, b) for b in internal):
                    return ("alias", op), p
            _scribble(r)
    before = [digest({k: s.state._history[k][t] for k in ("u", "x", "logl", "beta", "logz")}) for t in range(len(s.state._history["beta"]))]
    p2 = p
    p2.completed = False
    # two more real iterations through the public API
    from mc import pipeline as _pl
    prev = _pl._ACTIVE
    _pl._ACTIVE = p
    try:
        with env.quiet(), _pl.instrumented(), p.tape:
            last_ret = s.sample()
            s.sample()
    except Exception as e:
        p.exc = e
        return None, p
    finally:
        _pl._ACTIVE = prev
    after = [digest({k: s.state._history[k][t] for k in ("u", "x", "logl", "beta", "logz")}) for t in range(len(s.state._history["beta"]))]
    with OwnedRandom(99):
        res_final = s.results()
        post = s.posterior(return_blobs=True, return_logw=True)
    return {"before": before, "after": after, "digest": digest([snap(s.state), {k: v for k, v in res_final.items()}, list(post)])}, p


def run_sampler(case):
    res = Res()
    base = case["base"]
    twin, p0 = _sampler_run([], base, False)
    if twin is None:
        res.bump("aborted_twin")
        return res
    for seq in itertools.product(S_OPS, repeat=case["depth"]):
        if case.get("first") and seq[0] != case["first"]:
            continue
        if case.get("only") and list(seq) != case["only"]:
            continue
        out, p = _sampler_run(seq, base, True)
        res.evals += 1
        res.trans += len(seq) + 5
        res.states += 1
        cc = dict(case, only=list(seq))
        if out is None:
            res.violate(f"sampler:raises:{type(p.exc).__name__}", f"iterations after accessor sequence {seq} raised {p.exc!r}", cc)
            continue
        if isinstance(out, tuple):
            res.violate(f"sampler:alias:{out[1]}", f"Sampler-level accessor {out[1]} returned an array sharing memory with internal state (sequence {seq})", cc)
            continue
        if out["after"][: len(out["before"])] != out["before"] or len(out["after"]) != len(out["before"]) + 2:
            res.violate("sampler:append-only", f"earlier history batches changed / wrong growth across two iterations after {seq}", cc)
        if out["digest"] != twin["digest"]:
            res.violate(f"sampler:mutation-visible:{'+'.join(sorted(set(seq)))}", f"overwriting the arrays returned by {seq} changed later iterations/results (differs from the untouched twin run)", cc)
        res.outcome(("sampler", seq), nontrivial=True)
    res.traces += 1
    return res


def _arrays_deep(o, acc=None):
    """Like _arrays, but descends into object-dtype arrays (an array OF arrays hands out its elements by reference)."""
    acc = [] if acc is None else acc
    if isinstance(o, np.ndarray):
        if o.dtype == object:
            for v in o.ravel():
                _arrays_deep(v, acc)
        else:
            acc.append(o)
    elif isinstance(o, dict):
        for v in o.values():
            _arrays_deep(v, acc)
    elif isinstance(o, (list, tuple)):
        for v in o:
            _arrays_deep(v, acc)
    return acc


def run_ragged(case):
    """Histories whose batches have DIFFERENT sizes (what a resume with another particle count leaves behind): every accessor either declines
    (raising is outside this property) or hands out arrays - at any nesting depth, including inside object arrays - that share no memory with the
    internal state; writing into everything handed out leaves the committed history unchanged."""
    import copy
    from tempest.state_manager import StateManager

    res = Res()
    sizes = case["sizes"]
    sm = StateManager(1)
    for t, n in enumerate(sizes):
        sm.update_current({"u": np.linspace(0.1, 0.9, n).reshape(n, 1) + 0.001 * t, "x": np.linspace(-1, 1, n).reshape(n, 1) - t, "logl": -np.arange(1, n + 1, dtype=float) - t,
                           "beta": min(1.0, 0.3 * t), "logz": -0.1 * t, "iter": t + 1})
        sm.commit_current_to_history()
    accessors = {
        "get_history(u)": lambda: sm.get_history("u"), "get_history(logl)": lambda: sm.get_history("logl"), "get_history(u, flat)": lambda: sm.get_history("u", flat=True),
        "get_history(logl, index=0)": lambda: sm.get_history("logl", index=0), "get_last_history(u)": lambda: sm.get_last_history("u"),
        "compute_results": lambda: sm.compute_results(), "to_dict": lambda: sm.to_dict(), "compute_logw_and_logz": lambda: sm.compute_logw_and_logz(1.0),
    }
    for name, fn in accessors.items():
        if case.get("only") and case["only"] != name:
            continue
        before = copy.deepcopy(sm._history)
        cc = dict(case, only=name)
        for rep in range(2):  # twice: a cached result is handed out the second time
            try:
                r = fn()
            except (ValueError, TypeError):
                res.bump("ragged_accessor_declines")
                break
            res.evals += 1
            internal = _internal(sm)
            handed = _arrays_deep(r)
            if any(a.size and any(np.shares_memory(a, b) for b in internal) for a in handed):
                res.violate(f"ragged:alias:{name}", f"history with batch sizes {sizes}: {name} handed out an array (possibly nested inside an object array) that shares memory with internal state", cc)
                break
            for a in handed:
                if a.size and a.flags.writeable:
                    a[...] = 12345.0 if a.dtype.kind == "f" else 0
            now = sm._history
            if any(len(now[k]) != len(before[k]) or any(not np.array_equal(np.asarray(x), np.asarray(y)) for x, y in zip(now[k], before[k])) for k in ("u", "x", "logl", "beta", "logz")):
                res.violate(f"ragged:mutation-visible:{name}", f"history with batch sizes {sizes}: writing into what {name} returned changed the committed history", cc)
                break
        res.outcome(("ragged", tuple(sizes), name), nontrivial=len(set(sizes)) > 1)
    res.states += 1
    return res


KINDS = {"ragged": run_ragged, "prefix": run_prefix, "sampler": run_sampler}


def plan(ctx):
    th = ctx.thorough
    depth = 5 if th else 4
    cases = []
    for a in OPS:
        for b in OPS:
            cases.append({"kind": "prefix", "prefix": [a, b], "depth": depth, "sample": (a, b) == ("upd_all", "commit")})
    ctx.bounds.update({"state_manager": {"alphabet": OPS, "depth": depth, "sequences_upper_bound": len(OPS) ** depth}})
    ctx.explore("statemanager-sequences", cases, chunksize=2)
    # scale: histories of hundreds of committed batches (around every power of two a block / cache size could be), then every accessor, more commits, the accessors again
    tail = ["get_hist_u_flat", "get_hist_logl_flat", "results", "logw", "get_hist_u", "get_last_u", "to_dict", "upd_all", "commit", "get_hist_logl_flat", "get_hist_u_flat", "logw", "upd_all", "commit", "get_hist_logl_flat", "results"]
    longs = [{"kind": "prefix", "prefix": ["upd_all", "commit"] * T + tail, "depth": 2 * T + len(tail), "exact": True} for T in ((31, 32, 63, 64, 65, 127, 128, 129, 255, 256, 257) + ((511, 512, 513, 1024) if th else ()))]
    ctx.bounds["long_histories"] = [len(c["prefix"]) for c in longs]
    ctx.explore("long-histories", longs)
    ctx.explore("ragged-histories", [{"kind": "ragged", "sizes": sz} for sz in ([2, 3], [3, 1], [2, 2, 5], [4, 4], [1, 2, 3, 4], [8, 12, 12])])
    sc = [{"kind": "sampler", "base": ctx.seed, "depth": 1}]
    for f in S_OPS:
        sc.append({"kind": "sampler", "base": ctx.seed, "depth": 2, "first": f})
    if th:
        for f in S_OPS:
            sc.append({"kind": "sampler", "base": ctx.seed, "depth": 3, "first": f})
    ctx.bounds.update({"sampler": {"alphabet": S_OPS, "depth": 3 if th else 2, "iterations": "3 before, 2 after"}})
    ctx.explore("sampler-sequences", sc)
