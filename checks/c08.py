"""C08 - Checkpoints restore exactly, resume continues the run, saves are crash-safe.

Fault enumeration: the real save path runs over an in-memory file system that logs every raw
write / rename; for EVERY prefix of that log and every torn-write offset the crash image is
materialised and the checkpoint's final name must hold nothing, the complete previous checkpoint
or the complete new one.  Restore/resume: along every run of a tape-deviation tree the
in-memory truth is snapshotted at each save; every checkpoint k is loaded into a fresh sampler
(bit-equality) and resumed (numbering, call counting, schedule, prefix immutability, post-conditions).
"""
import io
import itertools

import numpy as np

from mc import env
from mc.core import Res
from mc import lattice
from mc.pipeline import Probe, make_sampler, snap, digest, deviation_tree
from mc.monitors import terminal_errors, schedule_monitor
from mc.refmodels.fs import MemFS, mounted
from mc.refmodels.statemodel import same
from mc.tape import OwnedRandom

LEVEL = "fault_enumeration"
RULE = ("crash points = every prefix of the logged raw I/O operations of one save (create/write/close/fsync/rename) x every torn offset of the in-flight "
        "write (all byte offsets in thorough; {0,1,half,len-1} + every 4096th in quick), for a first save and an overwriting save, per configuration; "
        "restore/resume = every checkpoint index k of every run with <=1 tape deviation; distinct = distinct crash image / (config, k); "
        "non-trivial = crash image in which the final name exists (old or new content) or a temp sibling is present.")
ASSUMPTIONS = ["crash model = death of the writing process: completed raw writes and renames persist, the in-flight write may be torn, user-space buffers are lost (no power-loss reordering)",
               "the library performs checkpoint I/O through open()/os.replace/os.rename/os.fsync/pathlib as resolved in tempest.core / tempest.state_manager"]

P = "/memfs/ck/run.state"


def _offsets(n, thorough):
    if thorough or n <= 64:
        return list(range(0, n))
    s = {0, 1, n // 2, n - 1}
    s.update(range(0, n, 4096))
    return sorted(x for x in s if 0 <= x < n)


def _truth(p):
    return {"state": snap(p.state), "n_total": getattr(p.sampler._core, "n_total", None)}


def _load_fresh(cfg, fs, path):
    s, ll, c = make_sampler(cfg)
    with env.quiet(), mounted(fs), OwnedRandom(5):
        s.load_state(path)
    return s


def _state_equal(s, truth):
    a = snap(s.state)
    return same(a["current"], truth["state"]["current"]) and same(a["history"], truth["state"]["history"])


def run_crash(case):
    res = Res()
    cfg = dict(case["cfg"])
    th = case["thorough"]
    fs = MemFS()
    p = Probe(cfg, base=case["base"], fs=fs)
    p.steps(2)
    if p.exc is not None:
        res.bump("aborted")
        return res
    saves = []
    for rnd in range(2):
        base_files = dict(fs.files)
        start = len(fs.log)
        try:
            with env.quiet(), p._stderr(), mounted(fs):
                (p.sampler.save_state(P) if case["api"] == "sampler" else p.state.save_state(P))
        except Exception as e:
            res.violate(f"save:raises:{type(e).__name__}", f"save_state raised {e!r} (cfg={cfg}, save #{rnd + 1})", dict(case))
            return res
        ops = fs.log[start:]
        saves.append((base_files, ops, dict(fs.files), _truth(p)))
        if rnd == 0:
            p.steps(1)
    for rnd, (base_files, ops, final_files, truth) in enumerate(saves):
        new = final_files.get(P)
        old = base_files.get(P)
        cc = dict(case, save=rnd)
        if new is None:
            res.violate("save:no-file", f"save_state returned but {P} does not exist (files: {sorted(final_files)})", cc)
            continue
        if case["api"] == "sampler":
            try:
                s = _load_fresh(cfg, _fs_with(final_files), P)
                if not _state_equal(s, truth) or getattr(s._core, "n_total", None) != truth["n_total"]:
                    res.violate("restore:not-exact", f"complete checkpoint #{rnd + 1} loaded into a fresh sampler does not equal the state that was saved (cfg={cfg})", cc)
            except Exception as e:
                res.violate(f"restore:raises:{type(e).__name__}", f"loading the complete checkpoint raised {e!r}", cc)
        allowed_names = None
        images = 0
        for k in range(len(ops) + 1):
            torn = [None]
            if k < len(ops) and ops[k][0] == "write":
                torn = [None] + _offsets(len(ops[k][3]), th)
            for t in torn:
                img = fs.image(base_files, ops, k, torn=t)
                images += 1
                res.evals += 1
                content = img.get(P)
                extra = sorted(n for n in img if n not in base_files and n != P)
                ok = (content is None and old is None) or (content is not None and (content == new or (old is not None and content == old)))
                desc = "absent" if content is None else ("new" if content == new else ("old" if content == old else f"partial({len(content)}B of {len(new)}B)"))
                if not ok:
                    res.violate(f"crash:final-name:{'overwrite' if old is not None else 'first'}:{desc.split('(')[0]}",
                                f"crash after {k} of {len(ops)} I/O operations{'' if t is None else f' + {t} bytes of the next write'}: {P} is {desc}; "
                                f"it must be absent/old/new (cfg={cfg}, save #{rnd + 1}, ops={[o[0] for o in ops]})", dict(cc, k=k, torn=t))
                if len(extra) > 1:
                    res.violate("crash:stray-names", f"crash image contains unexpected files {extra}", dict(cc, k=k, torn=t))
                res.outcome((rnd, k, t, desc, tuple(extra)), nontrivial=(content is not None or bool(extra)))
        res.states += images
        res.bump("crash_images", images)
        res.bump("io_ops", len(ops))
        if rnd == 1:
            res.sample({"cfg": cfg, "api": case["api"], "ops": [o[0] if o[0] != "write" else f"write[{len(o[3])}B]" for o in ops], "crash_images": images}, cap=1)
    res.traces += 1
    return res


def run_resume_default(case):
    """A checkpoint of a run with a small target resumed with n_total spelled out as the library's own DEFAULT value (and one below / above it):
    the resumed run must meet the target it was given."""
    import inspect
    from tempest import Sampler

    res = Res()
    default = inspect.signature(Sampler.run).parameters["n_total"].default
    cfg = dict(case["cfg"], save_every=2, output_dir="/memfs/out", output_label="r")
    fs = MemFS()
    p = Probe(cfg, base=case["base"], fs=fs)
    p.run()
    res.evals += 1
    if p.exc is not None:
        res.bump("aborted")
        return res
    cks = sorted((k for k in fs.files if k.endswith(".state") and not k.endswith("_final.state")), key=lambda s_: int(s_.rsplit("_", 1)[1].split(".")[0]))
    path = cks[-1]
    k = int(path.rsplit("_", 1)[1].split(".")[0])
    rcfg = dict(cfg)
    rcfg.pop("save_every")
    for nt in (int(default), int(default) - 1, int(default) + 1):
        q = Probe(dict(rcfg, n_total=nt), base=case["base"] + 1, fs=fs, iter_offset=k, max_iters=400)
        q.run(resume_state_path=path)
        res.evals += 1
        res.trans += q.events
        cc = dict(case, n_total=nt)
        res.outcome(("resume-default", nt), nontrivial=True)
        if q.exc is not None:
            res.violate(f"resume-default-n_total:raises:{type(q.exc).__name__}", f"run(resume_state_path={path}, n_total={nt}) raised {q.exc!r}", cc)
            continue
        for key, msg in terminal_errors(q):
            res.violate("resume-default-n_total:" + key, msg + f" [checkpoint of a run with n_total={cfg['n_total']} resumed with n_total={nt}; the library's default is {default}]", cc)
    res.states += 1
    return res


def run_bigsave(case):
    """Scale: checkpoints of tens of MiB (thousands of particles, dimension 8, a history of dozens of batches): save, load into a fresh sampler
    (exact restore), overwrite, and resume one iteration from it."""
    res = Res()
    cfg = dict(case["cfg"])
    fs = MemFS()
    p = Probe(cfg, base=case["base"], fs=fs)
    p.steps(2)
    if p.exc is not None:
        res.bump("aborted")
        return res
    st = p.state
    for k in range(case["extra_batches"]):  # a long history without paying for the likelihood calls: the current batch committed again and again
        st.set_current("iter", int(st.get_current("iter")) + 1)
        st.commit_current_to_history()
    truth = _truth(p)
    for rnd in range(2):
        try:
            with env.quiet(), p._stderr(), mounted(fs):
                p.sampler.save_state(P)
        except Exception as e:
            res.violate(f"bigsave:save-raises:{type(e).__name__}", f"save_state of a large sampler state raised {e!r} (cfg={cfg}, {case['extra_batches']} extra batches)", dict(case))
            return res
        size = len(fs.files.get(P, b""))
        res.evals += 1
        res.bump("largest_checkpoint_bytes", 0)
        res.extra["largest_checkpoint_bytes"] = max(res.extra.get("largest_checkpoint_bytes", 0), size)
        try:
            s2 = _load_fresh(cfg, _fs_with(dict(fs.files)), P)
            if not _state_equal(s2, truth):
                res.violate("bigsave:restore-not-exact", f"a checkpoint of {size} bytes loaded into a fresh sampler does not equal the state that was saved (cfg={cfg})", dict(case))
        except Exception as e:
            res.violate(f"bigsave:restore-raises:{type(e).__name__}", f"a checkpoint of {size} bytes written by save_state cannot be loaded: {e!r} (cfg={cfg})", dict(case))
            return res
    q = Probe(dict(cfg, n_total=10 ** 9), base=case["base"] + 1, fs=_fs_with(dict(fs.files)), iter_offset=int(st.get_current("iter")), max_iters=1)
    q.run(resume_state_path=P)
    if q.exc is not None and type(q.exc).__name__ != "Horizon":
        res.violate(f"bigsave:resume-raises:{type(q.exc).__name__}", f"resuming from a checkpoint of {size} bytes raised {q.exc!r} (cfg={cfg})", dict(case))
    res.outcome(("bigsave", tuple(sorted((k, repr(v)) for k, v in cfg.items())), case["extra_batches"]), nontrivial=True)
    res.states += 1
    return res


def run_recover(case):
    """Saving INTO the debris of a crash: every distinct crash image of an overwriting save (stale / torn temporary sibling, old or new file under the
    final name) becomes the directory a further save is made into.  That save must succeed, produce a checkpoint that restores exactly, and be
    atomic itself (every prefix x torn offset of ITS I/O log leaves the final name holding the image's content or the new checkpoint)."""
    res = Res()
    cfg = dict(case["cfg"])
    th = case["thorough"]
    fs = MemFS()
    p = Probe(cfg, base=case["base"], fs=fs)
    p.steps(2)
    if p.exc is not None:
        res.bump("aborted")
        return res
    try:
        with env.quiet(), p._stderr(), mounted(fs):
            p.sampler.save_state(P)
        p.steps(1)
        base_files = dict(fs.files)
        start = len(fs.log)
        with env.quiet(), p._stderr(), mounted(fs):
            p.sampler.save_state(P)
    except Exception as e:
        res.bump("aborted")  # owned by the crash phase
        return res
    ops = fs.log[start:]
    p.steps(1)
    truth = _truth(p)
    seen = set()
    for k in range(len(ops) + 1):
        torn = [None]
        if k < len(ops) and ops[k][0] == "write":
            torn = [None] + _offsets(len(ops[k][3]), th)
        for t in torn:
            img = fs.image(base_files, ops, k, torn=t)
            key = tuple(sorted((n, hash(b)) for n, b in img.items()))
            if key in seen:
                continue
            seen.add(key)
            fs2 = _fs_with(img)
            cc = dict(case, k=k, torn=t)
            if case.get("k") is not None and (case["k"], case.get("torn")) != (k, t):
                continue
            debris = sorted(n for n in img if n != P)
            start2 = len(fs2.log)
            try:
                with env.quiet(), p._stderr(), mounted(fs2):
                    p.sampler.save_state(P)
            except Exception as e:
                res.violate(f"recover:save-raises:{type(e).__name__}", f"save_state into the directory left by a crash (after {k} of {len(ops)} I/O operations of the previous save; files {sorted(img)}) raised {e!r} (cfg={cfg})", cc)
                continue
            res.evals += 1
            res.trans += 1
            try:
                s2 = _load_fresh(cfg, _fs_with(dict(fs2.files)), P)
                if not _state_equal(s2, truth):
                    res.violate("recover:restore-not-exact", f"the checkpoint saved into the debris of a crash (files before: {sorted(img)}) does not restore the state that was saved (cfg={cfg})", cc)
            except Exception as e:
                res.violate(f"recover:restore-raises:{type(e).__name__}", f"the checkpoint saved into the debris of a crash cannot be loaded: {e!r}", cc)
            _enumerate_crashes(res, fs2, P, dict(img), fs2.log[start2:], cc, False, "save-into-debris")
            res.outcome(("recover", k, t, tuple(debris)), nontrivial=bool(debris))
    res.states += len(seen)
    res.traces += 1
    return res


def _fs_with(files):
    fs = MemFS()
    fs.dirs.add("/memfs/ck")
    fs.dirs.add("/memfs/out")
    fs.files = dict(files)
    return fs


class _SaveSpy:
    """Records the in-memory truth, the I/O log segment and the pre-save files every time the real save_sampler_state is called."""

    def __init__(self, fs=None):
        self.saves = []
        self.save_exc = None
        self.fs = fs
        self.segments = []  # (path, base_files, log_start, log_end)

    def __enter__(self):
        import tempest.core as core
        self.core = core
        self.orig = core.SamplerCore.save_sampler_state
        spy = self

        def wrapped(self_, path, *a, **k):
            base = dict(spy.fs.files) if spy.fs is not None else None
            start = len(spy.fs.log) if spy.fs is not None else 0
            try:
                r = spy.orig(self_, path, *a, **k)
            except Exception as e:
                spy.save_exc = e
                raise
            spy.saves.append((str(path), {"state": snap(self_.state), "n_total": getattr(self_, "n_total", None)}))
            if spy.fs is not None:
                spy.segments.append((str(path), base, start, len(spy.fs.log)))
            return r

        core.SamplerCore.save_sampler_state = wrapped
        return self

    def __exit__(self, *a):
        self.core.SamplerCore.save_sampler_state = self.orig


def _in_save_path(exc):
    import traceback
    return any("save" in fr.name for fr in traceback.extract_tb(exc.__traceback__))


def _enumerate_crashes(res, fs, path, base_files, ops, cc, th, label):
    """Every prefix of `ops` x torn offsets of the in-flight write: `path` must be absent/old/new."""
    final = fs.image(base_files, ops, len(ops))
    new, old = final.get(path), base_files.get(path)
    if new is None:
        res.violate("save:no-file", f"{label}: save returned but {path} does not exist", cc)
        return 0
    images = 0
    for k in range(len(ops) + 1):
        torn = [None]
        if k < len(ops) and ops[k][0] == "write":
            torn = [None] + _offsets(len(ops[k][3]), th)
        for t in torn:
            img = fs.image(base_files, ops, k, torn=t)
            images += 1
            res.evals += 1
            content = img.get(path)
            extra = sorted(n for n in img if n not in base_files and n != path)
            ok = (content is None and old is None) or (content is not None and (content == new or (old is not None and content == old)))
            desc = "absent" if content is None else ("new" if content == new else ("old" if content == old else f"partial({len(content)}B of {len(new)}B)"))
            if not ok:
                res.violate(f"crash:final-name:{label}:{'overwrite' if old is not None else 'first'}:{desc.split('(')[0]}",
                            f"{label}: crash after {k} of {len(ops)} I/O operations{'' if t is None else f' + {t} bytes of the next write'}: {path} is {desc}; "
                            f"it must be absent/old/new (ops={[o[0] for o in ops]})", dict(cc, k=k, torn=t))
            if len(extra) > 1:
                res.violate("crash:stray-names", f"{label}: crash image contains unexpected files {extra}", dict(cc, k=k, torn=t))
            res.outcome((label, path, k, t, desc, tuple(extra)), nontrivial=(content is not None or bool(extra)))
    res.states += images
    res.bump("crash_images", images)
    res.bump("io_ops", len(ops))
    return images


def run_crash_run(case):
    """Crash points of EVERY checkpoint written by run(save_every=1) / sample(save_every=1) themselves (periodic and final saves)."""
    res = Res()
    cfg = dict(case["cfg"])
    cfg.update(save_every=1, output_dir="/memfs/out", output_label="r")
    fs = MemFS()
    with _SaveSpy(fs) as spy:
        p = Probe(cfg, base=case["base"], fs=fs)
        if case["driver"] == "run":
            p.run()
        else:
            from mc import pipeline as _pl
            prev = _pl._ACTIVE
            _pl._ACTIVE = p
            try:
                with env.quiet(), _pl.instrumented(), p.tape, p._mount():
                    p.sampler._core._initialize_fresh()
                    for _ in range(4):
                        p.sampler.sample(save_every=1)
            except Exception as e:
                p.exc = e
            finally:
                _pl._ACTIVE = prev
    cc = dict(case)
    if p.exc is not None:
        if spy.save_exc is not None or _in_save_path(p.exc):
            res.violate(f"save:raises:{type(p.exc).__name__}", f"a checkpoint save during {case['driver']}(save_every=1) raised {p.exc!r} (cfg={case['cfg']})", cc)
        else:
            res.bump("aborted_runs_not_in_save")
        return res
    if not spy.segments:
        res.violate("save:none", f"{case['driver']}(save_every=1) wrote no checkpoint", cc)
        return res
    for (path, base, a, b) in spy.segments:
        if case.get("path") and case["path"] != path:
            continue
        n = _enumerate_crashes(res, fs, path, base, fs.log[a:b], dict(cc, path=path), case["thorough"], f"{case['driver']}-save")
    res.traces += 1
    res.sample({"driver": case["driver"], "cfg": case["cfg"], "checkpoints": [s[0] for s in spy.segments]}, cap=1)
    return res


def _resume_monitor(k, truth, prefix_digest):
    memo = {"first": True}

    def mon(ev):
        p = ev.probe
        st = p.state
        if ev.step == "reweight" and memo["first"]:
            memo["first"] = False
            if st._current["iter"] != k + 1:
                p.violate("resume:numbering", f"first iteration after resuming from checkpoint {k} is numbered {st._current['iter']}", iter=ev.iter)
            if float(st._current["beta"]) < float(truth["state"]["current"]["beta"]):
                p.violate("resume:schedule", f"beta went from restored {truth['state']['current']['beta']!r} to {st._current['beta']!r}", iter=ev.iter)
        if ev.step in ("mutate", "commit"):
            if st._current["calls"] < truth["state"]["current"]["calls"]:
                p.violate("resume:calls", f"calls={st._current['calls']} after resume, restored value was {truth['state']['current']['calls']}", iter=ev.iter)
        h = st._history
        T0 = len(truth["state"]["history"]["beta"])
        d = digest({kk: h[kk][:T0] for kk in ("u", "x", "logl", "beta", "logz", "iter", "calls")})
        if d != prefix_digest:
            p.violate("resume:prefix-changed", f"restored history prefix (first {T0} batches) changed after step {ev.step} of iteration {ev.iter}", iter=ev.iter)

    return mon


def run_resume(case):
    res = Res()
    cfg = dict(case["cfg"])
    cfg.update(save_every=1, output_dir="/memfs/out", output_label="r")

    def one(symbols):
        fs = MemFS()
        with _SaveSpy(fs) as spy:
            p = Probe(cfg, symbols=symbols, base=case["base"], fs=fs)
            p.run()
        res.evals += 1
        res.traces += 1
        res.trans += p.events
        cc = dict(kind="resume1", cfg=case["cfg"], base=case["base"], symbols={str(a): b for a, b in symbols.items()})
        if p.exc is not None:
            if spy.save_exc is not None or _in_save_path(p.exc):
                e_ = spy.save_exc or p.exc
                res.violate(f"save:raises:{type(e_).__name__}", f"saving a checkpoint during run(save_every=1) raised {e_!r} (cfg={case['cfg']})", cc)
            else:
                res.bump("aborted_runs_not_in_save")  # C18/C14 own crashes outside the save path
            return p.iters
        if not spy.saves:
            res.violate("save:none", "run(save_every=1) wrote no checkpoint", cc)
            return p.iters
        names = [n for n, _ in spy.saves]
        if not names[-1].endswith("_final.state"):
            res.violate("save:no-final", f"last checkpoint is {names[-1]}", cc)
        only_k = case.get("k")
        for idx, (path, truth) in enumerate(spy.saves):
            if only_k is not None and idx != only_k:
                continue
            res.states += 1
            ck = dict(cc, k=idx)
            k = truth["state"]["current"]["iter"]
            # (1) exact restore into a fresh sampler
            try:
                s = _load_fresh(cfg, fs, path)
            except Exception as e:
                res.violate(f"restore:raises:{type(e).__name__}", f"load_state({path}) into a fresh sampler raised {e!r}", ck)
                continue
            if not _state_equal(s, truth):
                cur = s.state._current
                res.violate("restore:not-exact", f"checkpoint {path}: fresh sampler after load_state has iter={cur['iter']}, history length {len(s.state._history['beta'])}; "
                            f"saved iter={k}, history length {len(truth['state']['history']['beta'])} (bit-equality of current+history failed)", ck)
                continue
            if getattr(s._core, "n_total", None) != truth["n_total"]:
                res.violate("restore:n_total", f"n_total not restored from {path}", ck)
            # (2) resume
            T0 = len(truth["state"]["history"]["beta"])
            pd = digest({kk: truth["state"]["history"][kk][:T0] for kk in ("u", "x", "logl", "beta", "logz", "iter", "calls")})
            rcfg = dict(cfg)
            rcfg.pop("save_every")
            q = Probe(rcfg, symbols=symbols, base=case["base"], fs=fs, iter_offset=int(k),
                      monitors=[_resume_monitor(int(k), truth, pd), schedule_monitor("resume-sched")])
            # arm the schedule monitor with the restored temperature
            q.run(resume_state_path=path)
            res.evals += 1
            res.trans += q.events
            if q.exc is not None:
                res.violate(f"resume:raises:{type(q.exc).__name__}", f"run(resume_state_path={path}) raised {q.exc!r} (cfg={case['cfg']})", ck)
                continue
            for key, msg, det in q.viol[:3]:
                if key.startswith("resume-sched:start"):
                    continue  # a resumed run does not start at beta=0
                res.violate(key, msg + f" [resume from {path}, cfg={case['cfg']}]", ck)
            for key, msg in terminal_errors(q):
                res.violate("resume:" + key, msg + f" [resume from {path}]", ck)
            # (3) resuming with a LARGER sample-size target must meet the requested target (post-conditions of the resumed run)
            if idx in (0, len(spy.saves) // 2):
                big = dict(rcfg, n_total=3 * cfg["n_total"])
                q2 = Probe(big, symbols=symbols, base=case["base"], fs=fs, iter_offset=int(k), max_iters=200)
                q2.run(resume_state_path=path)
                res.evals += 1
                res.trans += q2.events
                if q2.exc is not None:
                    res.violate(f"resume:raises:{type(q2.exc).__name__}", f"run(resume_state_path={path}, n_total={big['n_total']}) raised {q2.exc!r}", ck)
                else:
                    for key, msg in terminal_errors(q2):
                        res.violate("resume-larger-n_total:" + key, msg + f" [resumed from {path} (written with n_total={cfg['n_total']}) asking for n_total={big['n_total']}]", ck)
                    if getattr(q2.sampler._core, "n_total", None) != big["n_total"]:
                        res.violate("resume-larger-n_total:n_total", f"sampler reports n_total={getattr(q2.sampler._core, 'n_total', None)} after run(n_total={big['n_total']}) on resume", ck)
            # (5) the checkpoint resumed under ANOTHER FILE NAME (a copy / a renamed file): everything a resume needs is in the file, not in its name
            if idx in (0, len(spy.saves) // 2, max(0, len(spy.saves) - 2)) and not path.endswith("_final.state"):
                for alias in ("/memfs/out/backup_1.state", "/memfs/out/chain_0.state", "/memfs/out/r_999.state", "/memfs/out/plain.state"):
                    fs.files[alias] = fs.files[path]
                    qa = Probe(rcfg, symbols=symbols, base=case["base"], fs=fs, iter_offset=int(k), monitors=[_resume_monitor(int(k), truth, pd)])
                    qa.run(resume_state_path=alias)
                    res.evals += 1
                    res.trans += qa.events
                    fs.files.pop(alias, None)
                    if qa.exc is not None:
                        res.violate(f"resume-renamed:raises:{type(qa.exc).__name__}", f"run(resume_state_path=<copy of {path} named {alias}>) raised {qa.exc!r}", ck)
                        continue
                    for key, msg, det in qa.viol[:2]:
                        res.violate("resume-renamed:" + key, msg + f" [resumed from a copy of {path} named {alias}, cfg={case['cfg']}]", ck)
            # (4) resuming with a SMALLER target: the checkpoint may already satisfy it; evidence() must still be the evidence of the history
            if idx >= len(spy.saves) - 3:
                small = dict(rcfg, n_total=max(4, cfg["n_total"] // 4))
                q3 = Probe(small, symbols=symbols, base=case["base"], fs=fs, iter_offset=int(k), max_iters=200)
                q3.run(resume_state_path=path)
                res.evals += 1
                res.trans += q3.events
                if q3.exc is not None:
                    res.violate(f"resume:raises:{type(q3.exc).__name__}", f"run(resume_state_path={path}, n_total={small['n_total']}) raised {q3.exc!r}", ck)
                else:
                    for key, msg in terminal_errors(q3):
                        res.violate("resume-smaller-n_total:" + key, msg + f" [resumed from {path} (written with n_total={cfg['n_total']}) asking for n_total={small['n_total']}]", ck)
            if len(q.state._history["beta"]) < T0:
                res.violate("resume:history-lost", f"history has {len(q.state._history['beta'])} batches after resuming from one with {T0}", ck)
            res.outcome(("resume", tuple(sorted((a, repr(b)) for a, b in case["cfg"].items())), tuple(sorted(symbols.items())), idx), nontrivial=T0 > 0)
        return p.iters

    n, capped = deviation_tree(one, alphabet=("a", "b"), max_dev=case["max_dev"], max_runs=case.get("max_runs"))
    if capped:
        res.bump("run_cap_hit")
    res.sample({"cfg": case["cfg"], "runs": n}, cap=1)
    return res


def run_resume1(case):
    c = dict(case)
    c["max_dev"] = 0
    res = Res()
    cfg = dict(case["cfg"])
    sub = {"kind": "resume", "cfg": cfg, "base": case["base"], "max_dev": 0, "k": case.get("k")}
    # replay with the recorded symbols
    import checks.c08 as me
    orig = me.deviation_tree
    try:
        me.deviation_tree = lambda fn, **kw: (fn({int(a): b for a, b in (case.get("symbols") or {}).items()}) and 1, False)
        r = run_resume(sub)
    finally:
        me.deviation_tree = orig
    return r


KINDS = {"resume_default": run_resume_default, "bigsave": run_bigsave, "recover": run_recover, "crash_run": run_crash_run, "crash": run_crash, "resume": run_resume, "resume1": run_resume1}

FACTORS = [
    ("clustering", [False, True]),
    ("eval", ["scalar", "blobs", "poolobj", "poolint"]),
    ("sample", ["tpcn", "rwm"]),
    ("stderr", ["stringio", "encodedfile"]),
    ("progress", [False, True]),
    ("resample", ["mult", "syst"]),
    ("blob_form", [None, "nan", "vector"]),  # with eval=blobs: scalar tag | NaN in half of the space | a vector per particle
]


def plan(ctx):
    th = ctx.thorough
    crash = []
    for clu in (False, True):
        for ev in ("scalar", "blobs", "poolobj"):
            for api in ("sampler", "statemanager"):
                if api == "statemanager" and (clu or ev != "scalar"):
                    continue
                crash.append({"kind": "crash", "cfg": dict(clustering=clu, eval=ev, n_particles=16 if not th else 48), "api": api, "base": ctx.seed, "thorough": th})
    for clu in (False, True):
        for ev in ("scalar", "blobs", "poolobj"):
            for driver in ("run", "sample"):
                if not th and driver == "sample" and (clu or ev != "scalar"):
                    continue
                crash.append({"kind": "crash_run", "cfg": dict(clustering=clu, eval=ev, n_particles=16, n_total=64), "driver": driver, "base": ctx.seed, "thorough": th})
    crash.append({"kind": "crash", "cfg": dict(clustering=False, eval="blobs", blob_form="nan", n_particles=16), "api": "sampler", "base": ctx.seed, "thorough": th})
    crash.append({"kind": "crash_run", "cfg": dict(clustering=True, eval="blobs", blob_form="nan", n_particles=16, n_total=64), "driver": "run", "base": ctx.seed, "thorough": th})
    crash += [{"kind": "recover", "cfg": dict(clustering=clu, eval=ev, n_particles=16), "base": ctx.seed, "thorough": th} for clu, ev in ((False, "scalar"), (True, "blobs"), (False, "poolobj"))]
    ctx.explore("crash-points", crash)
    ctx.explore("resume-with-the-default-target", [{"kind": "resume_default", "cfg": dict(n_particles=512, d=2, n_total=1024, eval="vec", clustering=False, target="gauss"), "base": ctx.seed}])
    ctx.explore("large-checkpoints", [{"kind": "bigsave", "cfg": dict(n_particles=4096, d=8, eval=ev, clustering=cl, n_total=10 ** 7), "extra_batches": eb, "base": ctx.seed}
                                      for ev, cl, eb in (("vec", False, 32), ("blobs", True, 36))])
    strength = 3 if th else 2
    rows = lattice.covering_array(FACTORS, strength=strength, seed=ctx.seed)
    cov, tot = lattice.count_covered(rows, FACTORS, strength)
    cases = [{"kind": "resume", "cfg": dict(r, n_particles=16, n_total=64, pool_n=2), "base": ctx.seed, "max_dev": 1 if th else 0, "max_runs": 12} for r in rows]
    ctx.bounds.update({"crash_cases": len(crash), "torn_offsets": "all" if th else "{0,1,half,len-1}+every 4096th", "resume_configs": len(rows),
                       "covering_strength": strength, "tuples_covered": f"{cov}/{tot}", "max_deviations": 1 if th else 0})
    agg = ctx.explore("restore-resume", cases)
    if agg.extra.get("run_cap_hit"):
        ctx.cap(f"run cap hit in {agg.extra['run_cap_hit']} configurations")
