"""C09 - Seeded runs are reproducible and the library never resets the global RNG.

(a) Reproducibility: for every configuration of a covering array and several random_state values,
    construct+run three times in ONE process on the real global stream (twice back to back, once
    after the stream was deliberately disturbed): bit-identical histories / weights / evidence;
    different random_state => different histories.
(b) No fixed reseed: explicit-state search over ALL sequences of library operations up to a depth;
    each sequence is executed from two different pre-seeds - the global generator state afterwards
    (and the next draws) must still depend on the pre-seed - and once under an auditing tape that
    logs every np.random.seed call made by library code.
(c) Inside real clustering runs the stream position after every iteration must differ between two
    pre-seeds.
"""
import itertools

import contextlib
import json
import sys
import os

import numpy as np

from mc import env
from mc.core import Res
from mc import lattice, targets
from mc.tape import OwnedRandom
from mc.pipeline import make_sampler, snap, digest, Probe
from mc.refmodels.fs import MemFS, mounted

LEVEL = "model_checking"
RULE = ("(a) configurations x random_state in {0,1,12345} x 3 executions in one process; (b) all sequences over a 19-operation alphabet of public "
        "library operations up to depth D, each run from pre-seeds 101 and 202 on the real global stream and once under the auditing tape; "
        "a state = (operation history, generator state); non-trivial = sequence that consumed random numbers; distinct by sequence.")
ASSUMPTIONS = ["seeding the global stream with the user's own Sampler random_state (run start, load_state) is legitimate and is recognised by varying random_state",
               "explicit random_state arguments of tools.systematic_resample are an opt-in and are not exercised (default arguments only)"]


def _data(d=2, n=40):
    g = np.arange(n)
    X = np.stack([np.sin(g * 0.7) * 0.2 + (g % 2) * 0.5 + 0.2, np.cos(g * 1.3) * 0.1 + 0.5][:d], axis=1)
    w = 1.0 + (g % 3)
    return X, w / w.sum()


def _small_state(beta=0.5, blobs=False):
    from tempest.state_manager import StateManager

    st = StateManager(2)
    X, w = _data(2, 24)
    for t in range(2):
        u = X[t * 12:(t + 1) * 12]
        x = np.array([targets.pt_affine(ui) for ui in u])
        st.update_current({"u": u, "x": x, "logl": np.array([targets.ll_gauss(xi) for xi in x]), "beta": 0.0 if t == 0 else 0.3, "logz": 0.0,
                           "iter": t + 1, "calls": 12 * (t + 1), "steps": 1, "efficiency": 1.0, "acceptance": 1.0, "ess": 12.0,
                           "assignments": np.zeros(12, dtype=int)})
        st.commit_current_to_history()
    st.set_current("beta", beta)
    return st


def _mk_ops():
    from tempest.cluster import GaussianMixture, HierarchicalGaussianMixture
    from tempest.modes import ModeStatistics
    from tempest.student import fit_mvstud
    from tempest.tools import trim_weights, systematic_resample
    from tempest.steps.reweight import Reweighter
    from tempest.steps.train import Trainer
    from tempest.steps.resample import Resampler
    from tempest.steps.mutate import Mutator
    from tempest import Sampler

    X, w = _data()
    ctx = {}

    def hgm():
        h = HierarchicalGaussianMixture(normalize=True)
        h.fit(X, w)
        return h

    def op_trainer():
        st = _small_state()
        c = HierarchicalGaussianMixture(normalize=True)
        Trainer(st, None, c, 1, True, 0.99, 1000, 1e6).run(np.ones(24) / 24)

    def op_resampler():
        st = _small_state()
        Resampler(st, 6, "mult", None, False, False).run(np.ones(24) / 24)

    def op_mutator():
        st = _small_state()
        st.update_current({"u": st.get_history("u", index=1), "x": st.get_history("x", index=1), "logl": st.get_history("logl", index=1)})
        ms = ModeStatistics(np.array([[0.5, 0.5]]), np.array([np.eye(2) * 0.05]), np.array([5.0]))
        Mutator(st, targets.pt_affine, lambda x: (np.array([targets.ll_gauss(xi) for xi in x]), None), None, 12, 2, 1, 2, "tpcn").run(ms)

    def sampler(rs=None, clustering=True):
        return Sampler(targets.pt_affine, targets.ll_gauss, n_dim=2, n_particles=8, clustering=clustering, random_state=rs)

    def op_sample3():
        s = sampler()
        s._core._initialize_fresh()
        for _ in range(3):
            s.sample()

    def op_run():
        sampler().run(n_total=24, progress=False)

    def op_post():
        s = ctx.get("done")
        if s is None:
            return
        s.posterior(resample=True)

    def op_save():
        s = ctx.get("done")
        if s is None:
            return
        with mounted(ctx["fs"]):
            s.save_state("/memfs/c9/x.state")

    def op_load():
        if "/memfs/c9/x.state" not in ctx["fs"].files:
            return
        with mounted(ctx["fs"]):
            sampler().load_state("/memfs/c9/x.state")

    ops = [
        ("GM1.fit", lambda: GaussianMixture(1).fit(X)),
        ("GM2.fit", lambda: GaussianMixture(2).fit(X, w)),
        ("GM2(random_state=7).fit", lambda: GaussianMixture(2, random_state=7).fit(X, w)),
        ("HGM.fit", hgm),
        ("HGM.fit+predict", lambda: (lambda h: (h.predict(X), h.predict_proba(X)))(hgm())),
        ("Modes.from_particles", lambda: ModeStatistics.from_particles(X, w, np.arange(len(X)) % 2)),
        ("Modes.from_global", lambda: ModeStatistics.from_global(X, w)),
        ("fit_mvstud", lambda: fit_mvstud(X.copy())),
        ("trim_weights", lambda: trim_weights(np.arange(len(w)), w.copy())),
        ("systematic_resample", lambda: systematic_resample(10, w)),
        ("Reweighter.run", lambda: Reweighter(_small_state(), None, 12, 1.0).run()),
        ("Trainer.run", op_trainer),
        ("Resampler.run", op_resampler),
        ("Mutator.run", op_mutator),
        ("Sampler.sample x3", op_sample3),
        ("Sampler.run", op_run),
        ("posterior(resample)", op_post),
        ("save_state", op_save),
        ("load_state", op_load),
    ]
    return ops, ctx, sampler


def _prepare(ctx, sampler):
    """Fixtures built under a FIXED seed before the pre-seed is applied (they are inputs, not the sequence)."""
    np.random.seed(4242)
    s = sampler()
    s.run(n_total=24, progress=False)
    ctx["done"] = s
    ctx["fs"] = MemFS()
    ctx["fs"].mkdir("/memfs/c9", parents=True, exist_ok=True)


def _state_fp():
    st = np.random.get_state()
    return digest([st[1], int(st[2]), int(st[3]), float(st[4])])


def run_seq(case):
    res = Res()
    ops, ctx, sampler = _mk_ops()
    names = [n for n, _ in ops]
    first = case["first"]
    depth = case["depth"]
    seqs = [tuple(case["only"])] if case.get("only") else [s for s in itertools.product(range(len(ops)), repeat=depth) if s[0] == first]
    for seq in seqs:
        fps, draws, consumed = [], [], False
        err = None
        for pre in (101, 202):
            with env.quiet():
                _prepare(ctx, sampler)
                np.random.seed(pre)
                ref = _state_fp()
                try:
                    for i in seq:
                        ops[i][1]()
                except Exception as e:
                    err = e
                    break
                fp = _state_fp()
                consumed = consumed or (fp != ref)
                fps.append(fp)
                draws.append(np.random.rand(8).tobytes())
        res.evals += 1
        res.trans += len(seq) * 2
        res.states += 1
        cc = dict(case, only=list(seq))
        label = " -> ".join(names[i] for i in seq)
        if err is not None:
            res.bump("sequence_raised")
            continue
        if fps[0] == fps[1] or draws[0] == draws[1]:
            culprit = names[seq[-1]]
            # which single op resets the stream? (keyed for findings / readable reports)
            res.violate(f"reseed:stream-independent-of-seed:{label}", f"after [{label}] the global generator state / next draws are identical for pre-seeds 101 and 202: some operation reset the stream to a fixed value", cc)
        # audit run: who calls np.random.seed, with what
        with env.quiet():
            _prepare(ctx, sampler)
            with OwnedRandom(303, audit=False) as tape:
                try:
                    for i in seq:
                        ops[i][1]()
                except Exception:
                    pass
        for where, arg in tape.seed_calls:
            if "/tempest/" in (where or ""):
                short = where.split("/tempest/")[-1]
                res.violate(f"reseed:seed-call:{short.split(':')[0]}", f"library code called np.random.seed({arg!r}) at tempest/{short} during [{label}] (no Sampler random_state was configured)", cc)
        res.outcome(seq, nontrivial=consumed)
    res.traces += 1
    if case.get("sample"):
        res.sample({"first_op": names[first], "depth": depth, "sequences": len(seqs), "example": [names[i] for i in seqs[len(seqs) // 2]]})
    return res


def _hist_digest(s):
    st = snap(s.state)
    return digest([st["history"], st["current"]])


def run_repro(case):
    res = Res()
    cfg = dict(case["cfg"])
    digs = {}
    for r in case.get("seeds", (0, 1, 12345, 2 ** 31, 2 ** 32 - 1)):
        c = dict(cfg, random_state=r)
        out = []
        exc = None
        with env.quiet():
            for rep in range(3):
                if rep == 2:
                    np.random.seed(999)
                    np.random.rand(17)
                try:
                    s, ll, _ = make_sampler(c)
                    s.run(n_total=c.get("n_total", 64), progress=False)
                    with OwnedRandom(1):
                        post = s.posterior(return_logw=True)
                    out.append(digest([_hist_digest(s), [np.asarray(a) for a in post], float(s.evidence()[0])]))
                except Exception as e:
                    exc = e
                    break
        res.evals += 3
        res.trans += 3
        res.states += 1
        cc = dict(case, rs=r)
        if exc is not None:
            res.bump("aborted_runs")
            continue
        if not (out[0] == out[1] == out[2]):
            which = "back-to-back runs differ" if out[0] != out[1] else "run after the global stream was disturbed differs"
            res.violate("repro:not-reproducible", f"random_state={r}: {which} (cfg={cfg})", cc)
        # the same seeded run while a process-wide setting is in force that only changes how floating-point events are SIGNALLED or how
        # arrays are PRINTED: if it completes, it must be the same run (a run that raises under such a setting is outside the property)
        import warnings
        for ename in (("errstate-raise", "warnings-error", "printoptions") if r in (1, 2 ** 32 - 1) else ()):
            with env.quiet(), contextlib.ExitStack() as stk:
                if ename == "errstate-raise":
                    stk.enter_context(np.errstate(all="raise"))
                elif ename == "warnings-error":
                    stk.enter_context(warnings.catch_warnings())
                    warnings.simplefilter("error")
                else:
                    stk.enter_context(np.printoptions(precision=1, threshold=3, suppress=True))
                try:
                    s, ll, _ = make_sampler(c)
                    s.run(n_total=c.get("n_total", 64), progress=False)
                    with OwnedRandom(1):
                        post = s.posterior(return_logw=True)
                    d_env = digest([_hist_digest(s), [np.asarray(a) for a in post], float(s.evidence()[0])])
                except (FloatingPointError, Warning):
                    res.bump(f"raises_under:{ename}")
                    continue
                except Exception as e:
                    res.violate(f"repro:environment:{ename}:raises:{type(e).__name__}", f"random_state={r}: with {ename} in force the run raised {e!r} (cfg={cfg})", dict(cc, env=ename))
                    continue
            res.evals += 1
            res.outcome(("repro-env", tuple(sorted((k, repr(v)) for k, v in cfg.items())), r, ename), nontrivial=True)
            if d_env != out[0]:
                res.violate(f"repro:environment:{ename}", f"random_state={r}: the run differs when {ename} is in force in the process (cfg={cfg})", dict(cc, env=ename))
        digs[r] = out[0]
        res.outcome(("repro", tuple(sorted((k, repr(v)) for k, v in cfg.items())), r, out[0]), nontrivial=True)
    if len(digs) >= 2 and len(set(digs.values())) < len(digs):
        res.violate("repro:seed-ignored", f"different random_state values gave identical histories (cfg={cfg})", dict(case))
    res.traces += 1
    return res


def run_iterpos(case):
    """(c) stream position after every iteration of a real clustering run depends on the pre-seed."""
    res = Res()
    cfg = dict(case["cfg"])
    pos = {}
    for pre in (101, 202):
        rec = []

        def mon(ev, rec=rec):
            if ev.step == "commit":
                rec.append(_state_fp())

        # run on the REAL global stream: no owned tape, no per-iteration reseeding by the harness
        from mc import pipeline as pl
        pr = pl.Probe(cfg, monitors=[mon])
        pr.tape = _NullCtx()

        def begin(pr=pr):
            pr.iters += 1
            pr.in_iter = True

        pr._begin_iter = begin
        np.random.seed(pre)
        pr.run()
        pos[pre] = rec
        res.evals += 1
        res.trans += len(rec)
    a, b = pos[101], pos[202]
    for t, (x, y) in enumerate(zip(a, b)):
        res.states += 1
        if x == y:
            res.violate("reseed:iteration-stream-fixed", f"after iteration {t + 1} the generator state is identical for pre-seeds 101 and 202 (cfg={cfg})", dict(case))
            break
    res.outcome(("iterpos", tuple(sorted((k, repr(v)) for k, v in cfg.items())), len(a)), nontrivial=True)
    res.traces += 1
    return res


def run_midrun(case):
    """A run with the user's random_state: the library may seed once, before the first draw of the run, and never again;
    it must not create generators that bypass the seeded stream (unseeded default_rng)."""
    res = Res()
    cfg = dict(case["cfg"])
    s, ll, c = make_sampler(cfg)
    fs = MemFS()
    with env.quiet(), mounted(fs):
        with OwnedRandom(77, audit=True) as tape:
            try:
                kw = {"save_every": cfg["save_every"]} if cfg.get("save_every") else {}
                s.run(n_total=c.get("n_total", 64), progress=False, **kw)
                s.posterior(resample=True)
            except Exception as e:
                res.bump("aborted_runs")
                res.bump("aborted:" + type(e).__name__)
    res.evals += 1
    res.trans += len(tape.log)
    res.states += 1
    res.traces += 1
    lib = [(i, name, where) for i, (name, where) in enumerate(tape.log) if where and "/tempest/" in where]
    draws_before = 0
    seeds = 0
    for i, name, where in lib:
        if name == "seed":
            seeds += 1
            if draws_before > 0:
                res.violate(f"reseed:mid-run:{where.split('/tempest/')[-1].split(':')[0]}", f"np.random.seed called by tempest/{where.split('/tempest/')[-1]} after {draws_before} random draws of the same run "
                            f"(random_state={cfg.get('random_state')}): the stream is reset in the middle of a run, successive iterations replay the same innovations (cfg={cfg})", dict(case))
                break
        elif name not in ("get_state", "set_state"):
            draws_before += 1
    for where, a, k in tape.foreign:
        if "/tempest/" in where and not a and not k.get("seed"):
            res.violate(f"unseeded-generator:{where.split('/tempest/')[-1].split(':')[0]}", f"tempest/{where.split('/tempest/')[-1]} creates an unseeded numpy Generator: its draws ignore random_state and differ from run to run (cfg={cfg})", dict(case))
            break
    res.outcome(("midrun", tuple(sorted((k, repr(v)) for k, v in cfg.items())), seeds, draws_before), nontrivial=True)
    return res


def run_replay(case):
    """No two iterations that start from DIFFERENT histories may start from the same generator state (that would replay the
    innovations of an earlier iteration).  Sessions on one seeded sampler (iterate / save / load / run) under a tape that honours
    seed / get_state / set_state and is never re-seeded by the harness, plus fresh-sampler resumes from every checkpoint."""
    from mc import session
    from mc.pipeline import digest as _dg

    res = Res()
    cfg = dict(case["cfg"])
    seqs = session.patterns()[case["patterns"][0]::case["patterns"][1]] if case.get("patterns") else [tuple(case["only"])]
    for seq in seqs:
        recs = []

        def on_start(sess, recs=recs):
            st = sess.p.state
            recs.append((_dg([st._history["u"], st._history["beta"]]), _dg(list(sess.p.tape.rs.get_state()[1:3])), len(st._history["beta"])))

        s = session.Session(cfg, case["base"], [], reseed=False)
        s.on_iteration_start = on_start
        s.run(seq)
        res.evals += 1
        res.states += len(recs)
        res.trans += s.p.events
        res.traces += 1
        cc = dict(case, only=list(seq), patterns=None)
        if s.err is not None:
            res.bump("aborted_sessions")
        seen = {}
        for hist, gen, T in recs:
            if gen in seen and seen[gen][0] != hist:
                res.violate("replay:iteration-starts-from-an-earlier-stream-state", f"random_state={cfg.get('random_state')}: the iteration that starts from a history of {T} batches begins with the same generator state as an "
                            f"earlier iteration that started from {seen[gen][1]} batches: it replays that iteration's innovations (operations after 3 iterations: {' '.join(seq)}; cfg={cfg})", cc)
                break
            seen.setdefault(gen, (hist, T))
        # duplicated prior batches are the visible symptom
        U = s.p.state._history["u"]
        for i in range(len(U)):
            for j in range(i + 1, len(U)):
                if np.array_equal(U[i], U[j]) and float(s.p.state._history["beta"][j]) == 0.0:
                    res.violate("replay:duplicated-prior-batch", f"history batches {i + 1} and {j + 1} are identical prior draws (operations {' '.join(seq)}; cfg={cfg})", cc)
                    break
        res.outcome(("replay", tuple(sorted((k, repr(v)) for k, v in cfg.items())), seq), nontrivial=any(o[0] in "LR" for o in seq))
    return res


def run_resume_replay(case):
    """A fresh seeded sampler resuming any checkpoint of a seeded run must not redraw what the interrupted run had already drawn."""
    res = Res()
    cfg = dict(case["cfg"])
    fs = MemFS()
    with env.quiet(), mounted(fs):
        with OwnedRandom(7):
            a, _, c = make_sampler(dict(cfg, save_every=1, output_dir="/memfs/rr", output_label="a"))
            try:
                a.run(n_total=c["n_total"], progress=False, save_every=1)
            except Exception:
                res.bump("aborted_runs")
                return res
        cks = sorted((k for k in fs.files if k.endswith(".state") and not k.endswith("_final.state")), key=lambda s_: int(s_.rsplit("_", 1)[1].split(".")[0]))
        for path in cks:
            with OwnedRandom(99):  # whatever the stream of the resuming process is
                b, _, _ = make_sampler(cfg)
                try:
                    b.run(n_total=c["n_total"], progress=False, resume_state_path=path)
                except Exception:
                    res.bump("aborted_runs")
                    continue
            res.evals += 1
            res.states += 1
            res.trans += 1
            U, B = b.state._history["u"], b.state._history["beta"]
            cc = dict(case, path=path)
            dup = [(i, j) for i in range(len(U)) for j in range(i + 1, len(U)) if np.array_equal(U[i], U[j])]
            if dup:
                res.violate("replay:duplicated-batch-after-resume", f"random_state={cfg.get('random_state')}: resuming from {path} produced history batches {dup[0][0] + 1} and {dup[0][1] + 1} that are identical: "
                            f"the resumed run drew again what had already been drawn (cfg={cfg})", cc)
            res.outcome(("resume-replay", path, tuple(sorted((k, repr(v)) for k, v in cfg.items()))), nontrivial=True)
    res.traces += 1
    return res


class _NullCtx:
    def __enter__(self):
        return self

    def __exit__(self, *a):
        return False


def run_dirtydir(case):
    """The same run into a clean output directory and into one that already holds files of an earlier run with the same label (complete
    checkpoints, temporary siblings left behind by a crash): same histories, same random stream position afterwards."""
    from mc.pipeline import Probe, digest, snap
    from mc.refmodels.fs import MemFS

    res = Res()
    cfg = dict(case["cfg"], save_every=case["save_every"], output_dir="/memfs/dd", output_label="ps")
    out = {}
    for kind in ("clean", "stale-tmp", "stale-checkpoints", "both"):
        fs = MemFS()
        fs.mkdir("/memfs/dd", parents=True, exist_ok=True)
        for k in range(0, 40):
            if kind in ("stale-tmp", "both"):
                for suffix in (".tmp", ".state.tmp", ".state.part"):
                    f = fs.open(f"/memfs/dd/ps_{k}{suffix}", "wb")
                    f.write(b"left behind by a crashed run")
                    f.close()
                f = fs.open("/memfs/dd/ps_final.state.tmp", "wb")
                f.write(b"x")
                f.close()
            if kind in ("stale-checkpoints", "both"):
                f = fs.open(f"/memfs/dd/ps_{k}.state", "wb")
                f.write(b"not a checkpoint of this run")
                f.close()
        p = Probe(cfg, base=case["base"], fs=fs)
        p.run()
        res.evals += 1
        res.trans += p.events
        if p.exc is not None:
            out[kind] = ("raised", repr(p.exc))
        else:
            out[kind] = ("ok", digest(snap(p.state)["history"]), p.tape.position(), p.iters)
    res.states += 1
    res.traces += 1
    res.outcome(("dirtydir", tuple(sorted((k, repr(v)) for k, v in cfg.items()))), nontrivial=True)
    if out["clean"][0] != "ok":
        res.bump("aborted_runs")
        return res
    for kind in ("stale-tmp", "stale-checkpoints", "both"):
        if out[kind] != out["clean"]:
            what = f"raised {out[kind][1]}" if out[kind][0] == "raised" else ("different history" if out[kind][1] != out["clean"][1] else "different stream position afterwards")
            res.violate(f"dirty-output-dir:{kind}", f"run(save_every={case['save_every']}) into a directory that already holds {kind} of an earlier run with the same label: {what} "
                        f"compared with the same run into a clean directory (cfg={case['cfg']})", dict(case))
    return res


_CHILD = r"""
import sys, json, hashlib
sys.path.insert(0, %(verif)r)
from mc import env
from mc.pipeline import Probe, digest, snap
import numpy as np
cfg = json.loads(%(cfg)r)
from mc.pipeline import make_sampler
# the REAL global generator (no harness tape): what a user's script does.  Without a random_state the script seeds the generator itself.
np.random.seed(4242 + %(base)d)
try:
    with env.quiet():
        s, ll, c = make_sampler(cfg)
        s.run(n_total=c["n_total"], progress=False)
        post = s.posterior(return_logw=True)
    print(json.dumps({"history": digest(snap(s.state)["history"]), "posterior": digest([np.asarray(a) for a in post]), "evidence": float(s.evidence()[0]),
                      "logz": [float(z) for z in s.state._history["logz"]], "optimize": sys.flags.optimize, "hashseed": sys.flags.hash_randomization}))
except Exception as e:
    print(json.dumps({"raised": repr(e)}))
"""


def run_interp(case):
    """The same seeded run in FRESH interpreter processes that differ only in how the interpreter was started: string-hash seed (PYTHONHASHSEED 0 /
    1 / 987 / random) and optimisation level (python, python -O, python -OO: assert statements and docstrings removed).  Histories, posterior and
    evidence must be identical: a result may not depend on the hash salt of the process nor on side effects placed inside assert statements."""
    import subprocess

    res = Res()
    cfg = dict(case["cfg"])
    code = _CHILD % {"verif": os.path.dirname(os.path.dirname(os.path.abspath(__file__))), "cfg": json.dumps(cfg), "base": case["base"]}
    variants = [("baseline", [], "0"), ("hashseed=1", [], "1"), ("hashseed=987", [], "987"), ("hashseed=random", [], "random"), ("python -O", ["-O"], "0"), ("python -OO", ["-OO"], "0")]
    outs = {}
    for name, flags, hs in variants:
        e = dict(os.environ, PYTHONHASHSEED=hs)
        e.pop("PYTHONOPTIMIZE", None)
        r = subprocess.run([sys.executable, "-W", "ignore"] + flags + ["-c", code], env=e, capture_output=True, text=True, timeout=600)
        res.evals += 1
        try:
            outs[name] = json.loads(r.stdout.strip().splitlines()[-1])
        except Exception:
            outs[name] = {"raised": (r.stderr or r.stdout)[-300:]}
    res.states += 1
    res.traces += 1
    res.outcome(("interp", tuple(sorted((k, repr(v)) for k, v in cfg.items()))), nontrivial=True)
    b = outs["baseline"]
    if "raised" in b:
        res.bump("aborted_runs")
        return res
    for name, o in outs.items():
        if name == "baseline":
            continue
        if "raised" in o:
            res.violate(f"interpreter:{name.split('=')[0]}:raises", f"the run that completes in a plain interpreter fails under {name}: {o['raised']} (cfg={cfg})", dict(case))
            continue
        diff = [k for k in ("history", "posterior", "evidence", "logz") if o[k] != b[k]]
        if diff:
            res.violate(f"interpreter:{name.split('=')[0]}", f"same seeded run, fresh interpreter started with {name}: {', '.join(diff)} differ from the plain interpreter "
                        f"(evidence {o['evidence']!r} vs {b['evidence']!r}; cfg={cfg})", dict(case))
    return res


KINDS = {"interp": run_interp, "dirtydir": run_dirtydir, "replay": run_replay, "resume_replay": run_resume_replay, "seq": run_seq, "repro": run_repro, "iterpos": run_iterpos, "midrun": run_midrun}

FACTORS = [
    ("sample", ["tpcn", "rwm"]),
    ("resample", ["mult", "syst"]),
    ("clustering", [False, True]),
    ("vv", [None, 0.5]),
    ("eval", ["scalar", "vec", "blobs"]),
    ("target", ["gauss", "hole", "bimodal"]),
]


def plan(ctx):
    th = ctx.thorough
    ops, _, _ = _mk_ops()
    depth = 3 if th else 2
    seqs = [{"kind": "seq", "first": i, "depth": depth, "sample": i in (3, 15)} for i in range(len(ops))]
    if th:  # split depth-3 work further: (first, second) prefixes are enumerated inside; one case per first op is enough for 16 cores
        pass
    ctx.bounds.update({"operations": [n for n, _ in ops], "depth": depth, "sequences": len(ops) ** depth, "pre_seeds": [101, 202]})
    ctx.explore("operation-sequences", seqs)
    rows = lattice.covering_array(FACTORS, strength=3 if th else 2, seed=ctx.seed)
    rep = [{"kind": "repro", "cfg": dict(r, n_particles=16, n_total=64, ll_rng=(i % 3 == 1))} for i, r in enumerate(rows)]  # every third row: the user's likelihood draws from the global generator too
    rep += [{"kind": "repro", "cfg": dict(n_particles=2048, d=3, n_total=8192, eval="vec", clustering=cl, target="gauss" if not cl else "bimodal"), "seeds": [1, 12345]} for cl in (False, True)]  # bootstrap samples of > 2^15 points in the mode fits
    ctx.explore("reproducibility", rep)
    it = [{"kind": "iterpos", "cfg": dict(clustering=True, sample=k, resample=r, n_particles=16, n_total=64, target="bimodal")} for k in ("tpcn", "rwm") for r in ("mult", "syst")]
    ctx.explore("per-iteration-stream", it)
    mid = [{"kind": "midrun", "cfg": dict(r, n_particles=16, n_total=64, random_state=rs)} for r in rows for rs in (5, None)]
    mid += [{"kind": "midrun", "cfg": dict(sample=k, resample=r, clustering=cl, target=t, n_particles=16, n_total=64, random_state=rs)}
            for k in ("tpcn", "rwm") for r in ("mult", "syst") for cl in (False, True) for t in ("gauss", "hole") for rs in (5,)]
    mid += [{"kind": "midrun", "cfg": dict(sample=k, resample=r, clustering=True, cluster_every=ce, target=t, n_particles=16, n_total=64, random_state=rs,
                                          save_every=sv, output_dir="/memfs/c9", output_label="m")}
            for k in ("tpcn", "rwm") for r in ("mult", "syst") for ce in (2, 3) for t in ("bimodal", "gauss") for rs in (5, None) for sv in (None, 1, 2)
            if th or (hash((k, r, ce, t, rs, sv)) + ctx.seed) % 3 == 0]
    from mc.pipeline import LARGE
    big9 = [LARGE[1], LARGE[4], dict(n_particles=2048, d=3, n_total=8192, eval="vec", clustering=False, target="gauss"), dict(n_particles=4096, d=2, n_total=12288, eval="vec", clustering=True, target="bimodal")]
    mid += [{"kind": "midrun", "cfg": dict(c, random_state=rs)} for c in big9 for rs in (5, None)]  # large scopes: pools of more than 8192 particles reach the mode fits
    ctx.explore("seeding-discipline", mid)
    rp = []
    for rs_ in (5, None):
        for cl in (False, True):
            scfg = dict(n_particles=8, d=1, ess_ratio=2.0, n_total=10 ** 6, eval="scalar", clustering=cl, random_state=rs_)
            for sh in range(2):
                rp.append({"kind": "replay", "cfg": scfg, "base": ctx.seed, "patterns": [sh, 2]})
            rp.append({"kind": "resume_replay", "cfg": dict(n_particles=8, d=2, ess_ratio=3.0, n_total=32, clustering=cl, random_state=rs_)})
    ctx.explore("no-replayed-innovations", rp)
    dd = [{"kind": "dirtydir", "cfg": dict(n_particles=16, n_total=64, clustering=cl, sample=k, random_state=rs_), "save_every": sv, "base": ctx.seed}
          for cl in (False, True) for k in ("tpcn", "rwm") for rs_ in (5, None) for sv in (1, 3)]
    ctx.explore("pre-populated-output-directory", dd)
    ctx.explore("interpreter-start-up", [{"kind": "interp", "cfg": c, "base": ctx.seed} for c in (
        dict(n_particles=16, n_total=64, clustering=True, target="hole", random_state=7, output_label="chainA"),
        dict(n_particles=16, n_total=64, clustering=False, target="gauss", sample="rwm", random_state=7, eval="blobs"),
        dict(n_particles=12, n_total=48, clustering=True, target="bimodal", random_state=None, vv=0.5))])
    ctx.bounds.update({"repro_configs": len(rows), "random_states": [0, 1, 12345]})
