"""C13 - Likelihood evaluation strategy is transparent; calls are counted exactly.

For one tape, the real sampler is run with the likelihood evaluated (a) one point at a time,
(b) vectorised, (c) through pool-like objects whose evaluation/completion ORDER is enumerated:
every permutation of a batch at <=1 (quick) / <=2 (thorough) deviating map calls, a lazy
(iterator-returning) pool, and real worker pools of size 1,2,3.  After every pipeline step the
state digests of all modes must be bit-identical, and `calls` must equal the instrumented counter.
"""
import itertools
import os

import numpy as np

from mc import env
from mc.core import Res
from mc.pipeline import Probe, OrderedPool, LazyPool, snap, digest

LEVEL = "model_checking"
RULE = ("schedules = (map-call index, permutation of the batch) deviations from in-order evaluation, all permutations of a batch of 3 (6) or 4 (24) "
        "walkers at every map call of the run, <=D deviating calls; modes {scalar, vectorised, ordered pool, permuted pool, lazy pool, unordered-capable pool, real pools}; "
        "a state = digest of the complete sampler state after one pipeline step; non-trivial = schedule that actually evaluated a batch out of order; distinct by (config, schedule).")
ASSUMPTIONS = ["the fixture likelihood is pure; the vectorised form is np.array([f(xi) for xi in x]) (pointwise identical by construction)",
               "real multiprocess pools: their internal scheduling is not controlled, only observed (runs must equal the serial run bit for bit)"]


class SchedPool(OrderedPool):
    """Adds imap / imap_unordered / starmap so that a library that starts using them is exercised
    with out-of-order COMPLETION too (imap_unordered yields in evaluation order)."""

    def imap(self, f, xs, chunksize=1):
        return iter(self.map(f, xs))

    def imap_unordered(self, f, xs, chunksize=1):
        xs = list(xs)
        self.calls += 1
        perm = self.perm_for_call.get(self.calls) or list(range(len(xs)))[::-1]
        order = [i for i in perm if i < len(xs)]
        if sorted(order) != list(range(len(xs))):
            order = list(range(len(xs)))[::-1]
        return iter([f(xs[i]) for i in order])


class ExecutorPool(OrderedPool):
    """A concurrent.futures-style executor (ThreadPoolExecutor, MPIPoolExecutor, ...): has submit() returning Future objects and an in-order
    map(), but no imap.  Results must be attached to the particles in SUBMISSION order whatever the completion order."""

    def map(self, f, xs, timeout=None, chunksize=1):
        return iter(super().map(f, xs))

    def submit(self, fn, *a, **k):
        from concurrent.futures import Future
        fut = Future()
        try:
            fut.set_result(fn(*a, **k))
        except Exception as e:  # pragma: no cover
            fut.set_exception(e)
        self.submitted = getattr(self, "submitted", 0) + 1
        return fut

    def shutdown(self, wait=True, **k):
        pass


class ArrayPool(OrderedPool):
    """map() hands the results back as a numpy array instead of a list (mpi4py-style gather, joblib with numpy outputs)."""

    def map(self, f, xs):
        return np.array(super().map(f, xs))


def run_large13(case):
    """One large configuration (batches of more than a thousand points, dimension 12): scalar, vectorised and pool-object evaluation under one
    tape must give the same state after every step and the same evidence; calls = evaluations."""
    res = Res()
    cfg = dict(case["cfg"])
    ref_p, ref_tr = _run(dict(cfg, eval="scalar"), case["base"])
    res.evals += 1
    if ref_p.exc is not None:
        res.bump("aborted_reference_runs")
        return res
    _calls_ok(res, "scalar", f"scalar cfg={cfg}", dict(case), ref_tr)
    for name, c, pool in (("vectorised", dict(cfg, eval="vec"), None), ("ordered-pool", dict(cfg, eval="poolobj"), OrderedPool()), ("array-pool", dict(cfg, eval="poolobj"), ArrayPool())):
        p, tr = _run(c, case["base"], pool=pool)
        res.evals += 1
        res.states += len(tr)
        res.trans += len(tr)
        res.traces += 1
        cc = dict(case, mode=name)
        _compare(res, name, f"{name} cfg={cfg}", cc, ref_tr, tr, ref_p, p)
        _calls_ok(res, name, f"{name} cfg={cfg}", cc, tr)
        res.outcome(("large", name, tuple(sorted((k, repr(v)) for k, v in cfg.items()))), nontrivial=True)
    return res


def _trace_monitor(store):
    def mon(ev):
        p = ev.probe
        st = p.state
        # current set + the most recent committed batch + history length: every batch is hashed once when committed
        h = st._history
        last = {k: (v[-1] if v else None) for k, v in h.items()} if ev.step == "commit" else None
        store.append((ev.step, ev.iter, digest([st._current, last, len(h["beta"])]), int(st._current["calls"] or 0), p.ll.n))
    return mon


def _run(cfg, base, pool=None):
    tr = []
    p = Probe(cfg, base=base, monitors=[_trace_monitor(tr)], pool=pool)
    p.run()
    return p, tr


def _compare(res, key, msg_prefix, case, ref_tr, tr, ref_p, p):
    if p.exc is not None and ref_p.exc is None:
        res.violate(f"{key}:raises:{type(p.exc).__name__}", f"{msg_prefix}: run raised {p.exc!r} while the serial run completed", case)
        return False
    n = min(len(ref_tr), len(tr))
    for i in range(n):
        if ref_tr[i][:3] != tr[i][:3]:
            res.violate(f"{key}:state-differs", f"{msg_prefix}: state after step '{tr[i][0]}' of iteration {tr[i][1]} differs from the serial run (first divergence at event {i})", case)
            return False
    if len(ref_tr) != len(tr):
        res.violate(f"{key}:length-differs", f"{msg_prefix}: {len(tr)} step events vs {len(ref_tr)} in the serial run", case)
        return False
    a, b = ref_p.sampler.evidence()[0], p.sampler.evidence()[0]
    if not (a == b):
        res.violate(f"{key}:evidence-differs", f"{msg_prefix}: evidence {b!r} vs serial {a!r}", case)
        return False
    return True


def _calls_ok(res, key, msg_prefix, case, tr, batch_sizes=None):
    for step, it, dg, calls, counted in tr:
        if step in ("mutate", "commit") and calls != counted:
            res.violate(f"{key}:calls", f"{msg_prefix}: after '{step}' of iteration {it} state calls={calls} but the likelihood was evaluated at {counted} points", case)
            return False
    return True


def run_modes(case):
    res = Res()
    cfg = dict(case["cfg"])
    base = case["base"]
    blobs = case["blobs"]
    scalar = "blobs" if blobs else "scalar"
    ref_p, ref_tr = _run(dict(cfg, eval=scalar), base)
    res.evals += 1
    res.states += len(ref_tr)
    res.trans += len(ref_tr)
    res.traces += 1
    if ref_p.exc is not None:
        res.bump("aborted_reference_runs")
        return res
    _calls_ok(res, "scalar", f"scalar cfg={cfg}", dict(case), ref_tr)
    modes = []
    if not blobs:
        modes.append(("vectorised", dict(cfg, eval="vec"), None))
    pe = "poolobj_blobs" if blobs else "poolobj"
    modes.append(("ordered-pool", dict(cfg, eval=pe), OrderedPool()))
    modes.append(("lazy-pool", dict(cfg, eval=pe), LazyPool()))
    modes.append(("sched-pool", dict(cfg, eval=pe), SchedPool()))
    modes.append(("executor-pool", dict(cfg, eval=pe), ExecutorPool()))
    if not blobs:
        modes.append(("array-pool", dict(cfg, eval=pe), ArrayPool()))
    shard, nshards = case.get("shard", 0), case.get("nshards", 1)
    if shard != 0:
        modes = []
    for name, c, pool in modes:
        p, tr = _run(c, base, pool=pool)
        res.evals += 1
        res.states += len(tr)
        res.trans += len(tr)
        res.traces += 1
        cc = dict(case, mode=name)
        _compare(res, name, f"{name} cfg={cfg}", cc, ref_tr, tr, ref_p, p)
        _calls_ok(res, name, f"{name} cfg={cfg}", cc, tr)
        if pool is not None and p.exc is None and sum(pool.batch_sizes) != p.ll.n and name not in ("sched-pool", "executor-pool"):
            res.violate(f"{name}:batch-accounting", f"{name}: pool saw {sum(pool.batch_sizes)} points, likelihood evaluated {p.ll.n}", cc)
        res.outcome((name, tuple(sorted((k, repr(v)) for k, v in cfg.items())), blobs), nontrivial=False)
    # schedules: permutations of the batch at deviating map calls
    ncalls = OrderedPool()
    pp, _ = _run(dict(cfg, eval=pe), base, pool=ncalls)
    n_map = ncalls.calls
    nP = cfg["n_particles"]
    perms = [list(pm) for pm in itertools.permutations(range(nP))][1:]
    scheds = [{k: pm} for k in range(1, n_map + 1) for pm in perms] if case["max_dev"] >= 1 else []
    if case["max_dev"] >= 2:
        pairs = [(k1, k2) for k1 in range(1, n_map + 1) for k2 in range(k1 + 1, n_map + 1)]
        # all pairs of calls x all pairs of permutations is large: every call pair with every permutation pair drawn from a
        # Latin-style diagonal (each permutation used at each position); reported as a cap, not as exhaustive
        for (k1, k2) in pairs:
            for i, pm in enumerate(perms):
                scheds.append({k1: pm, k2: perms[(i * 2 + 1) % len(perms)]})
    scheds = scheds[shard::nshards]
    only = case.get("sched")
    if only is not None:
        scheds = [{int(k): v for k, v in only.items()}]
    for sc in scheds:
        for cls in (SchedPool,):
            pool = cls(perm_for_call=sc)
            p, tr = _run(dict(cfg, eval=pe), base, pool=pool)
            res.evals += 1
            res.states += len(tr)
            res.trans += len(tr)
            res.traces += 1
            cc = dict(case, sched={str(k): v for k, v in sc.items()})
            _compare(res, "permuted-pool", f"pool evaluating map call(s) {sc} out of order, cfg={cfg}", cc, ref_tr, tr, ref_p, p)
            _calls_ok(res, "permuted-pool", f"permuted pool {sc}", cc, tr)
            res.outcome((cls.__name__, tuple(sorted((k, repr(v)) for k, v in cfg.items())), blobs, tuple(sorted((k, tuple(v)) for k, v in sc.items()))), nontrivial=True)
    res.bump("map_calls_per_run", n_map)
    res.sample({"cfg": cfg, "blobs": blobs, "map_calls": n_map, "schedules": len(scheds), "example": ({str(k): v for k, v in scheds[len(scheds) // 2].items()} if scheds else None)}, cap=1)
    return res


def run_realpool(case):
    """Real multiprocess pools of size 1,2,3 must reproduce the serial run bit for bit."""
    res = Res()
    cfg = dict(case["cfg"])
    base = case["base"]
    ref_p, ref_tr = _run(dict(cfg, eval="scalar"), base)
    res.evals += 1
    if ref_p.exc is not None:
        res.bump("aborted_reference_runs")
        return res
    # several samplers in ONE process, same likelihood function and pool size, different bound arguments:
    # each must reproduce ITS OWN serial run (worker pools / caches must not be shared across samplers)
    for extra in ({"ll_kwargs": {"scale": 0.25}}, {"ll_args": [1.5]}):
        c2 = dict(cfg, **extra)
        rp2, rt2 = _run(dict(c2, eval="scalar"), base)
        n2 = max(case["sizes"])
        p2, t2 = _run(dict(c2, eval="poolint", pool_n=n2), base)
        res.evals += 2
        res.states += len(t2)
        res.trans += len(t2)
        if rp2.exc is None:
            _compare(res, "real-pool-second-sampler", f"pool={n2} for a second sampler in the same process with {extra}, cfg={cfg}", dict(case, extra=extra), rt2, t2, rp2, p2)
    # the same, with ONE plain function object shared by all samplers (only the bound arguments differ)
    from tempest import Sampler
    from mc import targets as _t
    from mc.tape import OwnedRandom

    def _direct(pool, **bound):
        s_ = Sampler(_t.pt_affine, _t.ll_param, n_dim=2, n_particles=6, clustering=cfg.get("clustering", False), sample=cfg.get("sample", "tpcn"), pool=pool, **bound)
        with OwnedRandom(1234 + base):
            s_.run(n_total=24, progress=False)
        return digest([s_.state._history["u"], s_.state._history["logl"], s_.state._history["beta"], float(s_.evidence()[0]), s_.state.get_current("calls")])

    for bound in ({}, {"log_likelihood_kwargs": {"scale": 0.25}}, {"log_likelihood_args": [1.5]}, {"log_likelihood_args": [-2.0], "log_likelihood_kwargs": {"scale": 3.0}}):
        try:
            serial = _direct(None, **bound)
            pooled = _direct(max(case["sizes"]), **bound)
        except Exception as e:
            res.violate(f"shared-function:raises:{type(e).__name__}", f"run with a shared likelihood function and {bound} raised {e!r}", dict(case, bound=str(bound)))
            continue
        res.evals += 2
        res.states += 1
        res.trans += 2
        if serial != pooled:
            res.violate("shared-function:pool-differs-from-serial", f"a sampler with bound arguments {bound} (same likelihood function object as the samplers before it in this process) gives a different run with "
                        f"pool={max(case['sizes'])} than serially (cfg={cfg})", dict(case, bound=str(bound)))
        res.outcome(("shared-function", str(bound), serial), nontrivial=bool(bound))
    import tempfile
    for n in case["sizes"]:
        # evaluations are counted across processes through a file that receives one byte per call of the user's likelihood
        fd, cpath = tempfile.mkstemp(prefix="verif_c13_count_")
        os.close(fd)
        try:
            pc, trc = _run(dict(cfg, eval="poolint", pool_n=n, count_path=cpath), base)
            evaluated = os.path.getsize(cpath)
        finally:
            os.unlink(cpath)
        res.evals += 1
        if pc.exc is None:
            reported = int(pc.state.get_current("calls") or 0)
            if reported != evaluated:
                res.violate("real-pool:calls-across-processes", f"pool={n} cfg={cfg}: the sampler reports calls={reported} but the user's likelihood was evaluated {evaluated} times (counted in all worker processes)", dict(case, sizes=[n]))
        p, tr = _run(dict(cfg, eval="poolint", pool_n=n), base)
        res.evals += 1
        res.states += len(tr)
        res.trans += len(tr)
        res.traces += 1
        cc = dict(case, sizes=[n])
        # the likelihood counter lives in the workers for n>1; compare the state traces (which include `calls`)
        _compare(res, f"real-pool", f"pool={n} cfg={cfg}", cc, ref_tr, tr, ref_p, p)
        if n <= 1:
            _calls_ok(res, "real-pool", f"pool={n}", cc, tr)
        res.outcome(("realpool", n, tuple(sorted((k, repr(v)) for k, v in cfg.items()))), nontrivial=n > 1)
    import gc
    gc.collect()
    return res


KINDS = {"large": run_large13, "modes": run_modes, "realpool": run_realpool}


def plan(ctx):
    th = ctx.thorough
    cases = []
    for nP in (3, 4):
        for kern in ("tpcn", "rwm"):
            for clu in (False, True):
                for blobs in (False, True):
                    for rs in ("mult", "syst"):
                        if not th and nP == 4 and (rs == "syst" or blobs):
                            continue
                        cfg = dict(n_particles=nP, d=1, n_total=4 * nP, sample=kern, clustering=clu, resample=rs)
                        ns = 8 if nP == 4 else (8 if th else 2)
                        for sh in range(ns):
                            cases.append({"kind": "modes", "cfg": cfg, "blobs": blobs, "base": ctx.seed, "max_dev": 2 if (th and nP == 3) else 1, "shard": sh, "nshards": ns})
    # a likelihood supported on a thin slab: whole warm-up batches are discarded and redrawn (calls must count them)
    for kern in ("tpcn", "rwm"):
        for blobs in (False, True):
            cfg = dict(n_particles=3, d=1, n_total=12, sample=kern, clustering=False, resample="mult", target="sliver")
            cases.append({"kind": "modes", "cfg": cfg, "blobs": blobs, "base": ctx.seed, "max_dev": 1, "shard": 0, "nshards": 1})
    # bound extra arguments (log_likelihood_args / log_likelihood_kwargs) must reach the likelihood in every evaluation mode
    for extra in (dict(ll_kwargs={"scale": 0.25}), dict(ll_args=[1.5]), dict(ll_args=[-2.0], ll_kwargs={"scale": 3.0})):
        for kern in ("tpcn", "rwm"):
            for blobs in (False, True):
                cfg = dict(n_particles=3, d=1, n_total=12, sample=kern, clustering=False, resample="mult", **extra)
                cases.append({"kind": "modes", "cfg": cfg, "blobs": blobs, "base": ctx.seed, "max_dev": 1 if th else 0, "shard": 0, "nshards": 1})
    # a target pressed into a corner with very few walkers: steps in which EVERY proposal leaves the cube
    for nP in (1, 2, 3):
        for kern in ("tpcn", "rwm"):
            cfg = dict(n_particles=nP, d=2, n_total=4 * nP, sample=kern, clustering=False, resample="mult", target="corner", n_steps=3)
            cases.append({"kind": "modes", "cfg": cfg, "blobs": False, "base": ctx.seed, "max_dev": 0, "shard": 0, "nshards": 1})
    ctx.bounds.update({"mode_cases": len(cases), "batch_sizes": [3, 4], "permutations": "all 3! / 4! at every map call", "deviating_calls": "1 (quick), 2 for n=3 (thorough, permutation pairs on a diagonal)"})
    if th:
        ctx.cap("2-deviation schedules use a diagonal of permutation pairs (every call pair x every first permutation), not the full 5x5 / 23x23 product")
    ctx.explore("modes-and-schedules", cases)
    rp = []
    for kern in ("tpcn", "rwm"):
        for clu in (False, True):
            rp.append({"kind": "realpool", "cfg": dict(n_particles=6, d=2, n_total=24, sample=kern, clustering=clu), "base": ctx.seed, "sizes": [1, 2, 3] if th else [1, 2]})
    rp.append({"kind": "realpool", "cfg": dict(n_particles=7, d=2, n_total=28, sample="tpcn", clustering=False), "base": ctx.seed, "sizes": [2, 3] + ([4, 5] if th else [])})  # batch sizes that are NOT multiples of the worker count
    ctx.explore("real-pools", rp)
    ctx.explore("large-scopes", [{"kind": "large", "cfg": dict(n_particles=1500, d=12, n_total=3000, clustering=cl, target="gauss", sample=k), "base": ctx.seed} for cl, k in ((False, "tpcn"), (True, "rwm"))])
