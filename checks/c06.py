"""C06 - Resampling returns exactly n valid indices and is unbiased.

Systematic: the only random input is one uniform offset u0; for fixed (n, w) the output is
piecewise constant in u0.  The exact partition of [0,1) is computed in rational arithmetic and
the REAL routine is executed in every cell (interior point) and on the doubles adjacent to every
breakpoint - i.e. over the complete behaviour space in u0, for every (n, w) of a lattice.
Multinomial: the environment answer of np.random.choice is enumerated over all m^n index vectors
and the recorded law (a, size, replace, p) is compared with the multinomial the property demands.
"""
import itertools
import math
from fractions import Fraction as F

import numpy as np

from mc import env
from mc.core import Res
from mc.tape import OwnedRandom
from mc.lattice import compositions
from mc.refmodels import resample as ref
from mc import targets

LEVEL = "model_checking"
RULE = ("systematic: for each (n,w) of the lattice the exact rational partition of the offset u0 in [0,1) is built; "
        "the real routine runs at an interior point of every cell, at the doubles next to every breakpoint and at "
        "u0 in {0, 2^-1074, 0.5, 1-2^-53}; a state is one (n,w,cell); an outcome is a distinct returned index vector; "
        "non-trivial = index vector with >=2 distinct indices from non-uniform weights. multinomial/pipeline: all m^n "
        "answers of the scripted np.random.choice, recorded law compared with (arange(m), n, replace, p=w).")
ASSUMPTIONS = [
    "float ties: within tau=n(m+4)2^-52 of an exact breakpoint either neighbouring answer is accepted per tooth",
    "weights are finite, non-negative, with positive sum; |sum-1|<=sqrt(eps) vectors are used un-renormalised",
]


def _call_syst(n, w, u0):
    from tempest.tools import systematic_resample

    def h(t, *a, **k):
        if a or k:
            return OwnedRandom.PASS
        return u0

    with OwnedRandom(0, handlers={"random": h, "random_sample": h, "rand": h, "uniform": lambda t, *a, **k: u0}):
        return systematic_resample(n, w)


def _points(n, C, tau):
    """(u0 float, strict?) over the complete partition."""
    bps = ref.breakpoints(n, C)
    edges = [F(0)] + bps + [F(1)]
    pts = []
    cells = []
    for a, b in zip(edges[:-1], edges[1:]):
        wide = (b - a) > 6 * tau
        mid = float((a + b) / 2)
        cells.append((a, b, mid, wide))
        pts.append((mid, wide))
    for b in bps:
        fb = float(b)
        for x in (fb, float(np.nextafter(fb, 0.0)), float(np.nextafter(fb, 1.0))):
            if 0.0 <= x < 1.0:
                pts.append((x, False))
        for x in (float(b - 3 * tau), float(b + 3 * tau)):
            if 0.0 <= x < 1.0:
                pts.append((x, False))  # window oracle decides strictness by itself (tau window)
    for x in (0.0, 5e-324, 0.5, 1.0 - 2.0 ** -53):
        pts.append((x, False))
    return pts, cells, bps


def _check_one(res, case, n, w, wt, C, tau, last_pos, u0, tag):
    m = len(w)
    try:
        out = _call_syst(n, np.array(w, dtype=float), u0)
    except Exception as e:  # the routine must return for every offset
        res.violate(f"syst:raises:{type(e).__name__}", f"systematic_resample({n}, w) raised {type(e).__name__}: {e} at u0={u0!r}",
                    dict(case, u0=u0), u0=u0)
        return None
    out = np.asarray(out)
    if out.shape != (n,):
        res.violate("syst:length", f"returned shape {out.shape}, expected ({n},) at u0={u0!r}", dict(case, u0=u0))
        return None
    if not np.issubdtype(out.dtype, np.integer):
        res.violate("syst:dtype", f"returned dtype {out.dtype}", dict(case, u0=u0))
        return None
    if out.min() < 0 or out.max() >= m:
        res.violate("syst:range", f"index outside [0,{m}) : {out.tolist()} at u0={u0!r}", dict(case, u0=u0))
        return None
    zsel = [int(i) for i in set(out.tolist()) if wt[i] == 0.0]
    if zsel:
        res.violate("syst:zero-weight-selected", f"index {zsel[0]} has weight 0 but was selected (n={n}, u0={u0!r}, w={list(w)[:8]}): copies must be floor/ceil of n*w_i = 0", dict(case, u0=u0))
        return None
    if np.any(np.diff(out) < 0):
        res.violate("syst:order", f"indices not non-decreasing: {out.tolist()} at u0={u0!r}", dict(case, u0=u0))
    lo, hi = ref.tooth_window(n, C, F(u0), tau, last_pos)
    for i in range(n):
        a, b, r = lo[i], hi[i], int(out[i])
        # a tooth beyond the total mass (float / in-tolerance deficit) is absorbed by the LAST INDEX THAT CARRIES WEIGHT:
        # a zero-weight index must never be selected (copies of i are floor/ceil of n*w_i = 0)
        if a == -1:
            ok = r == last_pos
        elif b == -1:
            ok = a <= r <= last_pos
        else:
            ok = a <= r <= b
        if not ok:
            res.violate("syst:tooth", f"tooth {i} selected index {r}, exact model allows [{a},{b}] (n={n}, u0={u0!r}, w={list(w)[:8]}...)",
                        dict(case, u0=u0), got=out.tolist())
            break
    # floor/ceil law on copies (outside tie windows the window is a point, so this is implied; stated explicitly)
    return out


def run_syst(case):
    res = Res()
    n = case["n"]
    w = np.array(case["w"], dtype=float)
    m = len(w)
    wt, renorm = ref.used_weights(w)
    C = ref.cums(wt)
    tau = F(n * (m + 4), 2 ** 52)
    pos = [i for i in range(m) if wt[i] > 0]
    last_pos = pos[-1]
    pts, cells, bps = _points(n, C, tau)
    seen = set()
    uniform = len(set(np.round(wt, 15))) == 1
    for u0, _ in pts:
        if u0 in seen:
            continue
        seen.add(u0)
        out = _check_one(res, case, n, w, wt, C, tau, last_pos, u0, "pt")
        res.evals += 1
        res.trans += 1
        if out is not None:
            res.outcome((n, m, tuple(out.tolist())), nontrivial=(len(set(out.tolist())) > 1 and not uniform))
    res.states += len(cells)
    res.traces += 1
    # exact unbiasedness over the partition, from the REAL answers at the interior points
    E = [F(0)] * m
    slack = F(0)
    floorceil_bad = None
    for a, b, mid, wide in cells:
        if not wide:
            slack += (b - a)
            continue
        try:
            out = _call_syst(n, np.array(w, dtype=float), mid)
        except Exception:
            return res  # already reported above; expectation undefined when a cell has no answer
        out = np.asarray(out)
        if out.shape != (n,) or out.min() < 0 or out.max() >= m:
            return res
        cnt = np.bincount(out, minlength=m)
        for i in range(m):
            E[i] += (b - a) * int(cnt[i])
            t = n * F(float(wt[i])) / C[-1] if False else n * F(float(wt[i]))
            d = abs(1 - C[-1]) * n + tau
            if not (math.floor(t - d) <= cnt[i] <= math.ceil(t + d)):
                floorceil_bad = (i, int(cnt[i]), float(t), mid)
    if floorceil_bad:
        i, c, t, mid = floorceil_bad
        res.violate("syst:floorceil", f"index {i} copied {c} times, n*w={t} (n={n}, u0={mid!r})", dict(case, u0=mid))
    d = abs(1 - C[-1]) * n
    for i in range(m):
        if abs(E[i] - n * F(float(wt[i]))) > d + slack * n + F(1, 2 ** 40):
            res.violate("syst:bias", f"expected copies of index {i} over the partition = {float(E[i])}, n*w_i = {float(n * F(float(wt[i])))} (n={n}, w={list(w)[:8]})",
                        case)
            break
    res.bump("cells", len(cells))
    res.bump("renormalised" if renorm else "unrenormalised")
    res.sample({"n": n, "w": list(map(float, w))[:6], "cells": len(cells), "first_breakpoints": [float(b) for b in bps[:3]]}, cap=1)
    return res


# ---------------------------------------------------------------------------------------------
def _pool_state(sizes, have_blobs, d=2):
    """A real StateManager whose history is `len(sizes)` batches of distinct whole records."""
    from tempest.state_manager import StateManager

    st = StateManager(d)
    k = 0
    rows = []
    for t, nt in enumerate(sizes):
        u = np.array([[(k + i + 1) / 17.0, ((k + i) * 5 % 13 + 1) / 14.0][:d] for i in range(nt)])
        x = np.array([targets.pt_affine(ui) for ui in u])
        logl = np.array([targets.ll_gauss(xi) for xi in x])
        blobs = np.array([targets.blob_of(xi) for xi in x])
        st.update_current({"u": u, "x": x, "logl": logl, "beta": 0.0 if t == 0 else 0.5, "logz": 0.0,
                           "iter": t + 1, "calls": 10 * (t + 1), "steps": 1, "efficiency": 1.0, "ess": 2.0, "acceptance": 1.0})
        if have_blobs:
            st.set_current("blobs", blobs)
        st.commit_current_to_history()
        for i in range(nt):
            rows.append((u[i], x[i], logl[i], blobs[i]))
        k += nt
    st.set_current("beta", 0.5)
    return st, rows


def _check_rows(res, key, case, st, rows, idx, have_blobs, n):
    cur = st.get_current()
    ok = True
    for f, j in (("u", 0), ("x", 1), ("logl", 2)) + ((("blobs", 3),) if have_blobs else ()):
        got = np.asarray(cur[f])
        exp = np.array([rows[i][j] for i in idx])
        if got.shape != exp.shape or not np.array_equal(got, exp):
            res.violate(f"{key}:record:{f}", f"after resampling with indices {list(idx)} field '{f}' is not the pool rows at those indices",
                        case, got=got, expected=exp)
            ok = False
    a = cur["assignments"]
    if a is None or len(a) != n:
        res.violate(f"{key}:assignments", f"assignments has {None if a is None else len(a)} entries for {n} particles", case)
        ok = False
    return ok


def _mult_by_uniforms(res, case, sizes, n, have_blobs, w):
    """The multinomial path does not call np.random.choice: decide its law through the uniform variates it consumes instead.  Every uniform-producing
    function is scripted to return the constant v; v runs over the mid-point of every cell of the partition of [0,1) by the cumulative weights, the
    breakpoints themselves and their neighbours, 0.0 and 1-2^-53.  Oracles: a particle of weight 0 is never selected (any v); the set of v mapped
    to index j has measure w_j (mid-points; exact rational arithmetic) - true for every unbiased deterministic map of one uniform per draw."""
    from tempest.steps.resample import Resampler

    m = len(w)
    wn = [F(float(x)) for x in w]
    tot = sum(wn)
    C = [sum(wn[: j + 1]) / tot for j in range(m)]
    edges = [F(0)] + [c for c in C[:-1] if 0 < c < 1] + [F(1)]
    edges = sorted(set(edges))
    vals = [(float((a + b) / 2), b - a) for a, b in zip(edges[:-1], edges[1:])]
    special = [0.0, 1.0 - 2.0 ** -53, 5e-324] + [x for e in edges[1:-1] for x in (float(e), float(np.nextafter(float(e), 0.0)), float(np.nextafter(float(e), 1.0)))]
    measure = [F(0)] * m
    used = [0]
    for v, length in vals + [(x, None) for x in special]:
        st, rows = _pool_state(sizes, have_blobs)

        def h(t, *a, **k):
            used[0] += 1
            size = k.get("size", a[0] if (a and t != "uniform") else (a[2] if len(a) > 2 else None))
            if t == "rand":
                size = a if a else None
            return v if size is None else np.full(size, v)

        hs = {name: (lambda tape, *a, _n=name, **k: h(_n, *a, **k)) for name in ("random", "random_sample", "rand", "uniform", "sample", "ranf")}
        r = Resampler(st, n_particles=n, resample="mult", clusterer=None, clustering=False, have_blobs=have_blobs)
        with OwnedRandom(1, handlers=hs):
            try:
                r.run(w.copy())
            except Exception as e:
                res.violate(f"mult:raises:{type(e).__name__}", f"Resampler.run(mult) raised {e!r} when every uniform variate is {v!r} (weights {w.tolist()})", dict(case, v=v))
                continue
        res.evals += 1
        if not used[0]:
            res.bump("mult_law_unobservable_no_uniforms")
            return
        cur = st._current
        idx = []
        for row in np.asarray(cur["u"]):
            j = [k for k, rw in enumerate(rows) if np.array_equal(rw[0], row)]
            idx.append(j[0] if j else -1)
        if len(idx) != n or -1 in idx:
            res.violate("mult:rows", f"Resampler.run(mult) with every uniform variate {v!r}: {len(idx)} rows / rows that are not pool particles (weights {w.tolist()})", dict(case, v=v))
            continue
        zs = [j for j in set(idx) if w[j] == 0.0]
        if zs:
            res.violate("mult:zero-weight-selected", f"multinomial resampling selected particle {zs[0]} of weight 0 when a uniform variate is {v!r} (weights {w.tolist()}): its expected number of copies is 0", dict(case, v=v))
            continue
        if length is not None and len(set(idx)) == 1:
            measure[idx[0]] += length
    if used[0] and all(len(vals) for _ in [0]):
        bad = [j for j in range(m) if abs(measure[j] - wn[j] / tot) > F(1, 10 ** 12)]
        if bad:
            res.violate("mult:law:measure", f"the uniform variates mapped to particle {bad[0]} have measure {float(measure[bad[0]])!r}, its weight is {float(wn[bad[0]] / tot)!r} (weights {w.tolist()})", dict(case))
    res.outcome(("mult-uniforms", m, n, tuple(w.tolist())), nontrivial=True)


def run_mult(case):
    from tempest.steps.resample import Resampler

    res = Res()
    sizes, n, have_blobs = case["sizes"], case["n"], case["blobs"]
    w = np.array(case["w"], dtype=float)
    m = len(w)
    only = case.get("only")
    answers = [tuple(only)] if only else list(itertools.product(range(m), repeat=n))
    for ans in answers:
        st, rows = _pool_state(sizes, have_blobs)
        rec = []

        def h(t, a, size=None, replace=True, p=None):
            rec.append((a, size, replace, p))
            return np.array(ans, dtype=int)

        r = Resampler(st, n_particles=n, resample="mult", clusterer=None, clustering=False, have_blobs=have_blobs)
        with OwnedRandom(1, handlers={"choice": h}):
            try:
                r.run(w.copy())
            except Exception as e:
                res.violate(f"mult:raises:{type(e).__name__}", f"Resampler.run raised {e!r}", dict(case, only=list(ans)))
                continue
        res.evals += 1
        res.trans += 1
        if not rec:
            res.bump("mult_law_unobserved")
            _mult_by_uniforms(res, case, sizes, n, have_blobs, w)
            break
        a, size, replace, p = rec[0]
        a_ok = (isinstance(a, (int, np.integer)) and int(a) == m) or (np.ndim(a) == 1 and np.array_equal(np.asarray(a), np.arange(m)))
        s_ok = (size == n) or (isinstance(size, tuple) and tuple(size) == (n,))
        p_ok = p is not None and np.shape(p) == (m,) and np.array_equal(np.asarray(p, dtype=float), w)
        if not (a_ok and s_ok and replace in (True, 1) and p_ok and len(rec) == 1):
            res.violate("mult:law", f"multinomial draw not (arange({m}), size={n}, replace=True, p=weights): a={a!r} size={size!r} replace={replace!r} "
                        f"p={None if p is None else np.asarray(p).tolist()} weights={w.tolist()} calls={len(rec)}", dict(case, only=list(ans)))
        _check_rows(res, "mult", dict(case, only=list(ans)), st, rows, ans, have_blobs, n)
        res.outcome(("mult", m, n, ans, have_blobs), nontrivial=len(set(ans)) > 1)
    res.states += len(answers)
    res.traces += 1
    res.sample({"pipeline": "Resampler.run(mult)", "batches": sizes, "n": n, "weights": w.tolist(), "answers": len(answers)}, cap=1)
    return res


def run_rsyst(case):
    """Resampler.run(resample='syst') over the offset partition of the pool weights."""
    from tempest.steps.resample import Resampler

    res = Res()
    sizes, n, have_blobs = case["sizes"], case["n"], case["blobs"]
    w = np.array(case["w"], dtype=float)
    m = len(w)
    wt, _ = ref.used_weights(w)
    C = ref.cums(wt)
    tau = F(n * (m + 4), 2 ** 52)
    last_pos = max(i for i in range(m) if wt[i] > 0)
    pts, cells, bps = _points(n, C, tau)
    only = case.get("u0")
    for a, b, mid, wide in cells:
        if not wide or (only is not None and mid != only):
            continue
        st, rows = _pool_state(sizes, have_blobs)
        r = Resampler(st, n_particles=n, resample="syst", clusterer=None, clustering=False, have_blobs=have_blobs)

        def h(t, *aa, **k):
            return mid if not (aa or k) else OwnedRandom.PASS

        with OwnedRandom(1, handlers={"random": h, "random_sample": h, "rand": h}):
            try:
                r.run(w.copy())
            except Exception as e:
                res.violate(f"rsyst:raises:{type(e).__name__}", f"Resampler.run(syst) raised {e!r} at u0={mid!r}", dict(case, u0=mid))
                continue
        idx = ref.exact_indices(n, C, F(mid), last_pos)
        res.evals += 1
        res.trans += 1
        if -1 in idx:
            continue
        _check_rows(res, "rsyst", dict(case, u0=mid), st, rows, idx, have_blobs, n)
        res.outcome(("rsyst", m, n, tuple(idx)), nontrivial=len(set(idx)) > 1)
    res.states += len(cells)
    res.traces += 1
    return res


def _mk_sampler(sizes, have_blobs):
    """Real Sampler whose history is transplanted through the public StateManager API."""
    from tempest import Sampler

    s = Sampler(targets.pt_affine, targets.ll_gauss_blob if have_blobs else targets.ll_gauss, n_dim=2, n_particles=sizes[0],
                clustering=False, blobs_dtype="float64" if have_blobs else None)
    st, rows = _pool_state(sizes, have_blobs)
    s.state.update_from_dict(st.to_dict())
    # temperatures/evidences giving clearly non-uniform posterior weights
    T = len(sizes)
    s.state._history["beta"] = [float(b) for b in np.linspace(0.0, 1.0, T)]
    s.state._history["logz"] = [0.0 - 0.3 * t for t in range(T)]
    s.state._invalidate_cache()
    return s, rows


def run_post(case):
    """Sampler.posterior(resample=True) over the offset partition of its own (trimmed) weights."""
    res = Res()
    sizes, have_blobs, trim = case["sizes"], case["blobs"], case["trim"]
    s, rows = _mk_sampler(sizes, have_blobs)
    kw = dict(trim_importance_weights=trim, ess_trim=case.get("ess_trim", 0.99), bins_trim=case.get("bins", 1000))
    base = s.posterior(resample=False, return_blobs=have_blobs, **kw)
    x0, w0, l0 = base[0], base[1], base[2]
    b0 = base[3] if have_blobs else None
    n = len(w0)
    m = n
    wt, _ = ref.used_weights(w0)
    C = ref.cums(wt)
    tau = F(n * (m + 4), 2 ** 52)
    last_pos = max(i for i in range(m) if wt[i] > 0)
    pts, cells, bps = _points(n, C, tau)
    only = case.get("u0")
    for a, b, mid, wide in cells:
        if not wide or (only is not None and mid != only):
            continue

        def h(t, *aa, **k):
            return mid if not (aa or k) else OwnedRandom.PASS

        cc = dict(case, u0=mid)
        with OwnedRandom(1, handlers={"random": h, "random_sample": h, "rand": h}):
            try:
                out = s.posterior(resample=True, return_blobs=have_blobs, **kw)
            except Exception as e:
                res.violate(f"post:raises:{type(e).__name__}", f"posterior(resample=True) raised {e!r} at u0={mid!r}", cc)
                continue
        res.evals += 1
        res.trans += 1
        idx = ref.exact_indices(n, C, F(mid), last_pos)
        if -1 in idx:
            continue
        x, ww, ll = out[0], out[1], out[2]
        if not (len(x) == len(ww) == len(ll) == n):
            res.violate("post:length", f"posterior(resample=True) returned lengths {len(x)},{len(ww)},{len(ll)}; expected {n}", cc)
            continue
        if not np.all(ww == ww[0]) or abs(float(np.sum(ww)) - 1.0) > 1e-12:
            res.violate("post:uniform", f"weights after resampling are not uniform/normalised: {ww.tolist()}", cc)
        if not (np.array_equal(x, x0[idx]) and np.array_equal(ll, l0[idx])):
            res.violate("post:record", f"resampled rows are not the weighted rows at the exact systematic indices {idx}", cc)
        if have_blobs and not np.array_equal(out[3], b0[idx]):
            res.violate("post:record:blobs", f"resampled blobs are not the rows at indices {idx}", cc)
        res.outcome(("post", tuple(idx), trim, have_blobs), nontrivial=len(set(idx)) > 1)
    res.states += len(cells)
    res.traces += 1
    return res


def run_rsyst_full(case):
    """The COMPLETE offset partition (cells, ulp neighbours of breakpoints, offsets next to 0 and 1) through the real
    Resampler.run(resample='syst'), for a block of weight vectors incl. exact zeros and in-tolerance deficits:
    the pipeline call site must give the same index vector as the specification, not only the library routine."""
    from tempest.steps.resample import Resampler
    from tempest.state_manager import StateManager

    res = Res()
    n = case["n"]
    for wl in case["ws"]:
        w = np.array(wl, dtype=float)
        m = len(w)
        wt, renorm = ref.used_weights(w)
        C = ref.cums(wt)
        tau = F(n * (m + 4), 2 ** 52)
        pos = [i for i in range(m) if wt[i] > 0]
        if not pos:
            continue
        last_pos = pos[-1]
        pts, cells, bps = _points(n, C, tau)
        # pool of m distinct whole records in two batches
        sizes = [m - m // 2, m // 2] if m > 1 else [1]
        seen = set()
        for u0, _ in pts:
            if u0 in seen:
                continue
            seen.add(u0)
            st = StateManager(1)
            k = 0
            U = np.array([[(i + 1.0) / (m + 1.0)] for i in range(m)])
            for t, nt in enumerate([s_ for s_ in sizes if s_ > 0]):
                u = U[k:k + nt]
                st.update_current({"u": u, "x": 20 * u - 10, "logl": -(np.arange(k, k + nt) + 1.0), "beta": 0.0 if t == 0 else 0.5, "logz": 0.0, "iter": t + 1})
                st.commit_current_to_history()
                k += nt
            st.set_current("beta", float(case.get("beta", 0.5)))  # any temperature > 0 is an annealing iteration: the pool must be resampled
            r = Resampler(st, n_particles=n, resample="syst", clusterer=None, clustering=False, have_blobs=False)

            def h(t, *aa, **kk):
                return u0 if not (aa or kk) else OwnedRandom.PASS

            cc = {"kind": "rsyst_full", "n": n, "ws": [list(map(float, w))], "u0": u0, "beta": float(case.get("beta", 0.5))}
            if case.get("u0") is not None and case["u0"] != u0:
                continue
            with OwnedRandom(1, handlers={"random": h, "random_sample": h, "rand": h}):
                try:
                    r.run(w.copy())
                except Exception as e:
                    res.violate(f"rsyst:raises:{type(e).__name__}", f"Resampler.run(syst) raised {e!r} (n={n}, w={list(w)}, u0={u0!r})", cc)
                    continue
            res.evals += 1
            res.trans += 1
            cur = st._current
            # recover the index vector from the (distinct) rows
            idx = []
            for row in np.asarray(cur["u"]):
                j = int(round(float(row[0]) * (m + 1.0))) - 1
                idx.append(j if 0 <= j < m and np.array_equal(row, U[j]) else -9)
            out = np.array(idx)
            if len(out) != n or np.any(out < 0):
                res.violate("rsyst:rows", f"Resampler.run(syst) produced {len(out)} rows / rows that are not pool particles (n={n}, w={list(w)}, u0={u0!r})", cc)
                continue
            if not np.array_equal(np.asarray(cur["logl"]), -(out + 1.0)):
                res.violate("rsyst:record", "resampled logl rows do not belong to the resampled u rows", cc)
            zsel = [int(i) for i in set(out.tolist()) if wt[i] == 0.0]
            if zsel:
                res.violate("rsyst:zero-weight-selected", f"Resampler.run(syst): index {zsel[0]} has weight 0 but was selected (n={n}, w={list(w)}, u0={u0!r})", cc)
                continue
            lo, hi = ref.tooth_window(n, C, F(u0), tau, last_pos)
            for i in range(n):
                a, b, rr = lo[i], hi[i], int(out[i])
                ok = (rr == last_pos) if a == -1 else ((a <= rr <= last_pos) if b == -1 else (a <= rr <= b))
                if not ok:
                    res.violate("rsyst:tooth", f"Resampler.run(syst): tooth {i} selected index {rr}, exact model allows [{a},{b}] (n={n}, w={list(w)}, u0={u0!r})", cc)
                    break
            res.outcome(("rsyst_full", n, m, tuple(out.tolist())), nontrivial=len(set(out.tolist())) > 1)
        res.states += len(cells)
    res.traces += 1
    return res


def run_session6(case):
    """Operation sequences on one sampler object (iterate / save / load): the resampled set must always be drawn from the CURRENT pool."""
    from mc import session
    from mc.monitors import resample_law_monitor, coherent_monitor

    return session.run_case(case, lambda: [coherent_monitor("session"), resample_law_monitor("session")], oracle=None, key_pred=lambda k: ":resample:" in k or k.startswith("session:copy"))


def run_threads6(case):
    """Two overlapping calls of systematic_resample (another thread of the user's program resamples too): every schedule with ONE preemption -
    call A is interrupted before each of its library lines in turn, call B runs to completion, A resumes.  Both results must be what the calls
    return when they do not overlap."""
    from mc import threads
    from tempest.tools import systematic_resample

    res = Res()
    wA = np.array(case["wA"], dtype=float)
    wB = np.array(case["wB"], dtype=float)
    nA, nB = case["nA"], case["nB"]

    def h(t, *a, **k):
        return 0.37 if not (a or k) else OwnedRandom.PASS

    with OwnedRandom(0, handlers={"random": h, "random_sample": h, "rand": h}):
        fA = lambda: np.asarray(systematic_resample(nA, wA / wA.sum())).tolist()
        fB = lambda: np.asarray(systematic_resample(nB, wB / wB.sum())).tolist()
        nlines, refA = threads.line_events(fA)
        refB = fB()
        for k in range(1, nlines + 1):
            if case.get("k") is not None and case["k"] != k:
                continue
            rA, rB, where = threads.one_preemption(fA, fB, k)
            res.evals += 1
            res.trans += 1
            res.outcome(("threads", nA, nB, k), nontrivial=True)
            if rA != refA or rB != refB:
                res.violate("threads:one-preemption", f"systematic_resample({nA}, {case['wA']}) interrupted before its library line #{k} ({where}) by a complete call systematic_resample({nB}, {case['wB']}) in another thread: "
                            f"results {rA} / {rB}, without overlap {refA} / {refB}", dict(case, k=k))
                break
    res.states += nlines
    res.traces += 1
    return res


def run_ladder6(case):
    """Scale ladder: weight vectors of 7e4 .. 2e5 entries (beyond any block / chunk size a refactoring would pick), n up to 2e5.  The exact
    rational partition is too expensive here; the oracle is the statement of the property itself evaluated in floating point with an explicit
    slack: n indices, in range, non-decreasing, no zero-weight index, copies of i within [floor(n w_i - eps), ceil(n w_i + eps)], eps = 1e-6."""
    res = Res()
    m, n = case["m"], case["n"]
    fams = {}
    fams["uniform"] = np.full(m, 1.0 / m)
    g = 0.9999 ** np.arange(m)
    fams["geometric"] = g / g.sum()
    w = np.full(m, 0.5 / m)
    for b in (1 << 12, 1 << 14, 1 << 16, (1 << 16) + 1, 1 << 17):
        if b < m:
            w[b] += 0.1
    fams["heavy-at-powers-of-two"] = w / w.sum()
    z = np.where(np.arange(m) % 3 == 0, 0.0, 1.0)
    z[(1 << 16) - 1: (1 << 16) + 2] = 0.0
    fams["every-third-zero"] = z / z.sum()
    for fam, wv in fams.items():
        for u0 in (0.0, 0.37, 1.0 - 2.0 ** -53):
            cc = dict(case, only=[fam, u0])
            if case.get("only") and case["only"] != [fam, u0]:
                continue
            try:
                out = np.asarray(_call_syst(n, wv.copy(), u0))
            except Exception as e:
                res.violate(f"ladder:raises:{type(e).__name__}", f"systematic_resample({n}, {fam} weights of length {m}) raised {e!r} at u0={u0!r}", cc)
                continue
            res.evals += 1
            res.outcome(("ladder", m, n, fam, u0), nontrivial=True)
            if out.shape != (n,) or out.min() < 0 or out.max() >= m:
                res.violate("ladder:range", f"{fam} weights of length {m}, n={n}, u0={u0!r}: {out.shape} indices in [{out.min()}, {out.max()}]", cc)
                continue
            if np.any(np.diff(out) < 0):
                res.violate("ladder:order", f"{fam} weights of length {m}, n={n}, u0={u0!r}: indices not non-decreasing", cc)
            cnt = np.bincount(out, minlength=m)
            if np.any(cnt[wv == 0.0] > 0):
                res.violate("ladder:zero-weight-selected", f"{fam} weights of length {m}, n={n}, u0={u0!r}: index {int(np.flatnonzero((wv == 0) & (cnt > 0))[0])} has weight 0 but was selected", cc)
            t = n * wv
            bad = np.flatnonzero((cnt < np.floor(t - 1e-6)) | (cnt > np.ceil(t + 1e-6)))
            if len(bad):
                i = int(bad[0])
                res.violate("ladder:count-law", f"{fam} weights of length {m}, n={n}, u0={u0!r}: index {i} has n*w = {t[i]!r} but {int(cnt[i])} copies ({len(bad)} indices off)", cc)
    res.states += 1
    return res


def run_sforms(case):
    """systematic_resample with the SAME (dyadic, exactly representable) weights and size presented as other legal containers / dtypes / layouts /
    integer types, over the cell mid-points of the offset partition; plus the call-history oracle (a call repeated after other calls gives the
    same indices, and an index vector returned earlier does not change)."""
    from mc import forms as fm

    res = Res()
    n = case["n"]
    kinds = ("list", "tuple", "strided", "revstrided", "readonly", "f32", "f16", "longdouble")
    held = []
    for comp in case["comps"]:
        w = np.array(comp, dtype=float) / float(sum(comp))
        m = len(w)
        C = ref.cums(w)
        last_pos = max(i for i in range(m) if w[i] > 0)
        pts, cells, bps = _points(n, C, F(0))
        mids = {mid for a, b, mid, wide in cells}
        for mid in sorted(mids | {u for u, _ in pts}):
            if mid in mids:
                want = ref.exact_indices(n, C, F(mid), last_pos)
                if -1 in want:
                    continue
            else:  # at and next to the breakpoints: dyadic weights are exact in every float type, so every spelling must agree with float64
                try:
                    want = np.asarray(_call_syst(n, w.copy(), mid)).tolist()
                except Exception:
                    continue
            for kind, wv in [("f64", w.copy())] + list(fm.forms(w, kinds)):
                for sname, nv in fm.scalar_forms(n) if kind in ("f64", "list") else [("int", n)]:
                    cc = dict(case, comps=[list(comp)], only=[mid, kind, sname])
                    if case.get("only") and case["only"] != [mid, kind, sname]:
                        continue
                    try:
                        out = _call_syst(nv, wv, mid)
                    except Exception as e:
                        res.violate(f"forms:syst:{kind}/{sname}:raises:{type(e).__name__}", f"systematic_resample(size={sname}({n}), weights={comp}/{sum(comp)} as {kind}) raised {e!r} at u0={mid!r}", cc)
                        continue
                    res.evals += 1
                    got = np.asarray(out).tolist()
                    res.outcome(("sforms", n, tuple(comp), mid, kind, sname), nontrivial=kind != "f64" or sname != "int")
                    if got != list(want):
                        res.violate(f"forms:syst:{kind}/{sname}", f"systematic_resample(size={sname}({n}), weights={comp}/{sum(comp)} as {kind}) at u0={mid!r} returned {got}, expected {list(want)} (exact partition / the float64 spelling)", cc)
                    held.append((out, np.array(out, copy=True), comp, mid, kind))
                    if len(held) > 3:
                        o, snap, c0, m0, k0 = held.pop(0)
                        res.trans += 1
                        if not np.array_equal(np.asarray(o), snap):
                            res.violate("history:syst:earlier-result-changed", f"the index vector returned for weights {c0} ({k0}) at u0={m0!r} changed after later calls: {np.asarray(o).tolist()} vs {snap.tolist()} at return", cc)
    res.states += 1
    return res


def run_duo6(case):
    """Two samplers alive in one process with DIFFERENT resampling schemes (and the same one), every interleaving of their iterations and queries:
    each must resample by its own scheme (index order / copy-count law of the systematic scheme, no zero-weight particle)."""
    from mc import session
    from mc.monitors import resample_law_monitor, coherent_monitor

    return session.run_duo(case, lambda: [resample_law_monitor("pipe"), coherent_monitor("pipe")])


def run_cross6(case):
    """A checkpoint resumed by a fresh sampler with another particle count / resampling scheme: the resumed run resamples by ITS scheme from the
    whole loaded pool (index order, copy counts, no zero-weight particle, every particle a pool record)."""
    from mc import session
    from mc.monitors import resample_law_monitor, coherent_monitor
    return session.run_cross_resume(case, lambda: [coherent_monitor("pipe", resumed=True), resample_law_monitor("pipe")], key_pred=lambda k: ":resample:" in k or "raises" in k)


KINDS = {"threads": run_threads6, "ladder": run_ladder6, "cross": run_cross6, "sforms": run_sforms, "duo": run_duo6, "rsyst_full": run_rsyst_full, "session": run_session6, "syst": run_syst, "mult": run_mult, "rsyst": run_rsyst, "post": run_post}


# ---------------------------------------------------------------------------------------------
def weight_lattice(thorough, seed):
    fam = []  # (label, w)
    K = 12
    for m in range(1, 5 if not thorough else 6):
        for comp in compositions(K, m):
            fam.append((f"comp{K}/{m}", [c / K for c in comp]))
    for m in list(range(3, 50)) if thorough else [3, 5, 6, 7, 10, 11, 13, 20, 33, 49]:
        fam.append((f"uniform{m}", [1.0 / m] * m))
    fam.append(("tenth10", [0.1] * 10))
    for r in (0.5, 0.9, 1e-3):
        for m in (3, 6, 12):
            g = np.array([r ** i for i in range(m)])
            fam.append((f"geom{r}/{m}", (g / g.sum()).tolist()))
    for m in (2, 5):
        for k in range(m):
            fam.append((f"onehot{m}", [1.0 if i == k else 0.0 for i in range(m)]))
    for big in (1e300, 1e-300):
        g = np.array([1.0, big, 3.0, big * 2, 0.5])
        fam.append(("dynrange", (g / g.sum()).tolist()))
    fam.append(("pair-deficit", [0.5, 0.5 - 1e-9]))
    fam.append(("thirds", [1 / 3, 1 / 3, 1 / 3]))
    fam.append(("sevenths", [1 / 7] * 7))
    return fam


def perturbations(w, thorough):
    w = np.array(w, dtype=float)
    out = [("as-is", w)]
    sq = ref.SQRTEPS
    for name, eps in (("-2^-52", -2.0 ** -52), ("+2^-52", 2.0 ** -52), ("-1e-12", -1e-12), ("+1e-12", 1e-12),
                      ("-0.9sqrteps", -0.9 * sq), ("+0.9sqrteps", 0.9 * sq), ("-1.1sqrteps", -1.1 * sq), ("+1.1sqrteps", 1.1 * sq)):
        out.append((name, w * (1.0 + eps)))
    out.append(("x3", w * 3.0))
    return out


def plan(ctx):
    th = ctx.thorough
    fam = weight_lattice(th, ctx.seed)
    cases = []
    for label, w in fam:
        m = len(w)
        ns = sorted(set([1, 2, 3, 4, 5, 6, 8, m, 2 * m, 3 * m] if th else [1, 2, 3, 5, 8, m, 2 * m]))
        ns = [n for n in ns if n * m <= (2500 if th else 700)]
        perts = perturbations(w, th)
        if not th and label.startswith("comp"):
            # quick: every composition as-is, the perturbations on a deterministic rotating third
            pick = (hash(tuple(w)) + ctx.seed) % 3 == 0
            perts = perts if pick else perts[:1] + perts[5:7]
        for pname, wp in perts:
            for n in ns:
                cases.append({"kind": "syst", "n": n, "w": [float(x) for x in wp], "family": label, "pert": pname})
    ctx.bounds.update({"syst_cases": len(cases), "m_max": max(len(c["w"]) for c in cases), "n_max": max(c["n"] for c in cases)})
    ctx.explore("systematic-partition", cases, chunksize=32)

    mult = []
    for sizes in ([2, 1], [2, 2]):
        m = sum(sizes)
        for wv in ([0.4, 0.3, 0.2, 0.1][:m], [0.7, 0.0, 0.2, 0.1][:m], [0.0, 0.5, 0.25, 0.25][:m], [0.5, 0.25, 0.25, 0.0][:m], [0.0, 0.0, 1.0, 0.0][:m]):  # incl. exact zeros first / last, one particle carrying everything
            wv = (np.array(wv) / np.sum(wv)).tolist()
            for n in (1, 2, 3):
                for blobs in (False, True):
                    mult.append({"kind": "mult", "sizes": sizes, "w": wv, "n": n, "blobs": blobs})
                    mult.append({"kind": "rsyst", "sizes": sizes, "w": wv, "n": n, "blobs": blobs})
    for sizes in ([3, 3], [2, 3, 1]) + (([4, 4, 4],) if th else ()):
        for blobs in (False, True):
            for trim in (False, True):
                mult.append({"kind": "post", "sizes": sizes, "blobs": blobs, "trim": trim})
    ctx.bounds.update({"pipeline_cases": len(mult)})
    ctx.explore("multinomial-and-pipeline", mult)
    # the pipeline call site of systematic resampling over the complete offset partition
    ws = []
    for mm in (2, 3, 4):
        for comp in compositions(12, mm):
            if sum(1 for c in comp if c) == 0:
                continue
            base = np.array(comp, dtype=float) / 12.0
            ws.append(base.tolist())
            if comp[-1] == 0 or (hash(comp) + ctx.seed) % 4 == 0 or th:
                ws.append((base * (1 - 1e-12)).tolist())
                ws.append((base * (1 - 0.9 * ref.SQRTEPS)).tolist())
    ws.append([0.1] * 10)
    full = [{"kind": "rsyst_full", "n": nn, "ws": ws[i::12]} for nn in ((2, 3, 5, 8) if th else (2, 5)) for i in range(12)]
    # the same partition at the smallest temperatures an annealing iteration can have (bisection resolution 2^-14, below the schedule tolerance, subnormal) and at 1
    full += [{"kind": "rsyst_full", "n": 3, "ws": ws[i::12][:: (1 if th else 3)], "beta": b} for b in (2.0 ** -14, 1e-5, 9.9e-5, 5e-324, 1.0) for i in range(12)]
    ctx.explore("resampler-call-site-partition", full)
    dy = [c for mm in (1, 2, 3, 4) for c in compositions(8, mm) if sum(c)]
    ctx.explore("overlapping-calls-one-preemption", [{"kind": "threads", "nA": a, "wA": wa, "nB": b, "wB": wb} for a, wa, b, wb in
                                                     ((8, [1, 1, 1, 1], 8, [4, 0, 0, 0]), (8, [4, 0, 0, 0], 8, [1, 1, 1, 1]), (5, [1, 2, 3], 9, [3, 2, 1, 0, 1]), (6, [0, 1, 0, 5], 6, [2, 2, 1, 1]))])
    ctx.explore("scale-ladder", [{"kind": "ladder", "m": m_, "n": n_} for m_, n_ in ((70001, 1000), (200000, 1000), (131073, 200000)) + (((1000003, 5000),) if th else ())])
    ctx.explore("input-forms-and-call-history", [{"kind": "sforms", "n": nn, "comps": dy[i::8]} for nn in ((1, 2, 3, 5, 8) if th else (1, 3, 5)) for i in range(8)])
    from mc import session as _sess
    cfg = dict(n_particles=8, d=1, ess_ratio=1.0, n_total=10 ** 6, eval="scalar", clustering=False)
    ses = [{"kind": "session", "cfg": dict(cfg, resample=rs), "base": ctx.seed, "depth": 9, "patterns": [sh, 4]} for rs in ("mult", "syst") for sh in range(4)]
    ctx.explore("session-sequences", ses)
    duo = [{"kind": "duo", "cfg": dict(cfg, resample=ra), "cfg_b": {"resample": rb}, "base": ctx.seed, "depth": 4 if th else 3, "shard": [sh, 4]}
           for ra, rb in (("syst", "mult"), ("mult", "syst"), ("syst", "syst")) for sh in range(4)]
    ctx.explore("two-samplers-interleaved", duo)
    xpairs = [({"n_particles": 16, "resample": "syst"}, {"n_particles": 24}), ({"n_particles": 24, "resample": "syst"}, {"n_particles": 8}), ({"resample": "mult"}, {"resample": "syst", "n_particles": 12}),
              ({"resample": "syst"}, {"resample": "mult"}), ({"resample": "syst", "eval": "blobs"}, {"n_particles": 8}), ({"resample": "syst", "ess_ratio": 1.0}, {"ess_ratio": 3.0})]
    ctx.explore("resume-with-other-options", [{"kind": "cross", "cfg": dict(n_particles=16, d=2, n_total=48, eval="scalar", clustering=False), "pair": list(pr), "base": ctx.seed + b} for pr in xpairs for b in (0, 5)])
