"""C15 - Weighted mixture and hierarchical clustering models satisfy their invariants.

Deterministic data lattice (quasi-random blobs with several separations, degenerate layouts,
duplicates; translations and scales) x weight lattice (uniform, integer patterns, dominant,
geometric, exact zeros on a subset / on a whole blob) x model options, executed on the real
GaussianMixture / HierarchicalGaussianMixture under an owned tape.
"""
import itertools
import math

import numpy as np
from scipy import stats

from mc import env
from mc.core import Res
from mc.tape import OwnedRandom

LEVEL = "exploration"
RULE = ("full product (dimension, size, layout, separation, affine placement, weight pattern, covariance type, components, n_init) inside the stated lattice for the mixture; "
        "(data, weights, normalize, threshold modifier, cap/min_points) for the hierarchical model, with training-set and arbitrary-query prediction; "
        "distinct = distinct (data, weights, options); non-trivial = non-uniform weights or >=2 fitted components/clusters.")
ASSUMPTIONS = ["covariance types 'tied' and 'spherical' are excluded (as in the property)", "replication equivalence tolerance 1e-3 of the data scale; counted only when the unweighted fit differs by >= 10x that",
               "component means are required inside the bounding box inflated by 1e-6*range + 1e-9*|x|max/weight (the slack the +1e-10 regularisers can consume)"]

PRIMES = [2, 3, 5, 7, 11, 13, 17]


def halton(n, k, skip=0):
    out = np.empty((n, k))
    for j in range(k):
        b = PRIMES[j]
        for i in range(n):
            x, f, m = 0.0, 1.0 / b, i + 1 + skip
            while m:
                x += f * (m % b)
                m //= b
                f /= b
            out[i, j] = x
    return out


def make_data(d, n, layout, sep):
    """Returns (X, blob_id)."""
    Z = stats.norm.ppf(0.5 / n + (1 - 1.0 / n) * halton(n, d))
    blob = np.zeros(n, dtype=int)
    if layout in ("1blob",):
        X = Z
    elif layout in ("2blob", "3blob"):
        k = 2 if layout == "2blob" else 3
        blob = np.arange(n) % k
        X = Z.copy()
        for b in range(k):
            off = np.zeros(d)
            off[b % d] = sep * (b if b < 2 else -1)
            if b == 2 and d == 1:
                off[0] = -sep
            X[blob == b] += off
    elif layout == "manyblob":  # sep = number of well separated blobs (on a grid in the first two coordinates)
        k = int(sep)
        blob = np.arange(n) % k
        X = 0.3 * Z
        side = int(np.ceil(np.sqrt(k)))
        for b in range(k):
            X[blob == b, 0] += 8.0 * (b % side)
            X[blob == b, -1] += 8.0 * (b // side) if d > 1 else 8.0 * side * (b // side)
    elif layout == "collinear":
        X = np.outer(Z[:, 0], np.ones(d)) + 1e-9 * Z
    elif layout == "constcoord":
        X = Z.copy()
        X[:, -1] = 0.25
    elif layout == "dup2":
        X = np.repeat(Z[: max(2, n // 2)], 2, axis=0)[:n]
        blob = np.zeros(len(X), dtype=int)
    elif layout == "dup5":
        X = np.repeat(Z[: max(2, n // 5)], 5, axis=0)[:n]
        blob = np.zeros(len(X), dtype=int)
    elif layout == "twomass":
        X = np.zeros((n, d))
        X[n // 2:] = 1.0
        blob = (np.arange(n) >= n // 2).astype(int)
    else:
        raise ValueError(layout)
    return X, blob


def weight_patterns(n, blob):
    g = np.arange(n)
    pats = {
        "uniform": np.ones(n),
        "int125": np.array([1, 2, 5])[g % 3].astype(float),
        "int-blob": np.where(blob == 0, 3.0, 1.0),
        "dominant": np.where(g == n // 3, 1.0, 1e-12 / max(1, n - 1)),
        "geom0.5": 0.5 ** (g % 40).astype(float),
        "geom1e-2": 1e-2 ** (g % 8).astype(float),
        "zeros-subset": np.where(g % 4 == 1, 0.0, 1.0),
        "zeros-blob": np.where(blob == blob.max(), 0.0, 1.0) if blob.max() > 0 else np.where(g % 2 == 0, 0.0, 1.0),
    }
    return pats


def _pl(shift, scale):
    return f"scale={scale:g},shift={shift:g}"


def gmm_invariants(res, key, gm, X, w, cc, k):
    W = np.asarray(gm.weights_, dtype=float)
    d = X.shape[1]
    if W.shape != (k,) or not np.all(np.isfinite(W)) or np.any(W < 0) or abs(W.sum() - 1.0) > 1e-12 * 10:
        res.violate(f"{key}:weights", f"component weights {W.tolist()} are not a probability vector", cc)
        return False
    M = np.asarray(gm.means_, dtype=float)
    wn = w / w.sum()
    sup = X[wn > 0]
    lo, hi = sup.min(0), sup.max(0)
    rng = np.maximum(hi - lo, 0.0)
    xmax = float(np.max(np.abs(X))) if X.size else 0.0
    ok = True
    for j in range(k):
        cov = gm._get_covariance(gm.covariances_, j) if gm.covariance_type != "spherical" else None
        C = np.asarray(cov, dtype=float)
        if not np.all(np.isfinite(C)) or np.max(np.abs(C - C.T)) > 1e-10 * max(np.max(np.abs(C)), 1e-300):
            res.violate(f"{key}:cov-symmetric", f"component {j} covariance not finite/symmetric", cc)
            ok = False
            continue
        ev = np.linalg.eigvalsh((C + C.T) / 2)
        if ev.min() < -1e-10 * max(np.trace(C), 1e-300):
            res.violate(f"{key}:cov-psd", f"component {j} covariance has eigenvalue {ev.min()!r}", cc)
            ok = False
        if W[j] > 1e-3:
            slack = 1e-6 * rng + 1e-9 * xmax / W[j] + 1e-12
            if not np.all(np.isfinite(M[j])) or np.any(M[j] < lo - slack) or np.any(M[j] > hi + slack):
                res.violate(f"{key}:mean-outside-box", f"component {j} (weight {W[j]:.3g}) has mean {M[j].tolist()} outside the data bounding box [{lo.tolist()}, {hi.tolist()}]", cc)
                ok = False
    return ok


def run_gmm(case):
    from tempest.cluster import GaussianMixture

    res = Res()
    d, n, layout, sep = case["d"], case["n"], case["layout"], case["sep"]
    X0, blob = make_data(d, n, layout, sep)
    n = len(X0)
    pats = weight_patterns(n, blob)
    for (shift, scale) in case["placements"]:
        X = X0 * scale + shift
        for wname, w in pats.items():
            for ct in ("full", "diag"):
                for k in (1, 2, 3):
                    for n_init in ((1, 2) if k == 2 else (1,)):
                        if k > n:
                            continue
                        cc = dict(case, only=[shift, scale, wname, ct, k, n_init])
                        if case.get("only") and case["only"] != [shift, scale, wname, ct, k, n_init]:
                            continue
                        gm = GaussianMixture(n_components=k, covariance_type=ct, n_init=n_init)
                        with OwnedRandom(17 + env.SEED):
                            with np.errstate(all="ignore"):
                                try:
                                    gm.fit(X, w.copy())
                                    lab = gm.predict(X)
                                    bic = gm.bic(X)
                                except Exception as e:
                                    res.violate(f"gmm[{_pl(shift, scale)},k={k}]:raises:{type(e).__name__}", f"GaussianMixture(k={k},{ct}).fit/predict/bic raised {e!r} (d={d}, n={n}, layout={layout}, sep={sep}, shift={shift}, scale={scale}, weights={wname})", cc)
                                    continue
                        res.evals += 1
                        ok = gmm_invariants(res, f"gmm[{_pl(shift, scale)},k={k}]", gm, X, w, cc, k)
                        lab = np.asarray(lab)
                        if lab.shape != (n,) or lab.min() < 0 or lab.max() >= k:
                            res.violate(f"gmm[{_pl(shift, scale)},k={k}]:predict-range", f"predict returned labels outside [0,{k})", cc)
                        if not np.isfinite(bic):
                            res.violate(f"gmm[{_pl(shift, scale)},k={k}]:bic", f"bic = {bic!r}", cc)
                        res.outcome((d, n, layout, sep, shift, scale, wname, ct, k, n_init), nontrivial=(wname != "uniform" or k > 1))
                        # the fit may depend on the weights only through their ratios: tiny / huge totals (unnormalised importance weights)
                        if ok and k <= 2 and n_init == 1 and ct == "full":
                            for cfac in (1e-12, 1e12):
                                g4 = GaussianMixture(n_components=k, covariance_type=ct, n_init=1)
                                with np.errstate(all="ignore"):
                                    with OwnedRandom(17 + env.SEED):
                                        try:
                                            g4.fit(X, w * cfac)
                                        except Exception as e:
                                            res.violate(f"gmm[{_pl(shift, scale)},k={k}]:weight-scale:raises", f"fit with weights x{cfac:g} raised {e!r}", cc)
                                            continue
                                res.evals += 1
                                sc_ = max(float(np.max(X.max(0) - X.min(0))), 1e-9 * (float(np.max(np.abs(X))) + 1.0))  # degenerate (constant) data: rounding scale of the values
                                big = (np.asarray(gm.weights_) > 1e-3) & (np.asarray(g4.weights_) > 1e-3)  # a component of negligible weight has an arbitrary mean
                                dm_ = (np.max(np.abs(np.asarray(gm.means_)[big] - np.asarray(g4.means_)[big])) / sc_) if np.any(big) else 0.0
                                dw_ = np.max(np.abs(np.asarray(gm.weights_) - np.asarray(g4.weights_)))
                                if not (np.isfinite(dm_) and np.isfinite(dw_)) or dm_ > 1e-6 or dw_ > 1e-6:
                                    res.violate(f"gmm[{_pl(shift, scale)},k={k}]:weight-scale", f"fit(X, w) and fit(X, {cfac:g}*w) differ: means by {dm_:.3g} of the data scale, component weights by {dw_:.3g} "
                                                f"(d={d}, n={n}, layout={layout}, weights={wname}, {ct})", cc)
                                    break
                        # replication equivalence for integer weights
                        if ok and wname in ("int125", "int-blob") and n_init == 1 and n <= 200:
                            reps = w.astype(int)
                            Xr = np.repeat(X, reps, axis=0)
                            g2 = GaussianMixture(n_components=k, covariance_type=ct, n_init=1)
                            g3 = GaussianMixture(n_components=k, covariance_type=ct, n_init=1)
                            with np.errstate(all="ignore"):
                                with OwnedRandom(17 + env.SEED):
                                    g2.fit(Xr)
                                with OwnedRandom(17 + env.SEED):
                                    g3.fit(X)
                            res.evals += 2
                            sc = max(float(np.max(X.max(0) - X.min(0))), 1e-300)
                            tol = 1e-3
                            dm = np.max(np.abs(np.asarray(gm.means_) - np.asarray(g2.means_))) / sc
                            dw = np.max(np.abs(np.asarray(gm.weights_) - np.asarray(g2.weights_)))
                            du = np.max(np.abs(np.asarray(gm.means_) - np.asarray(g3.means_))) / sc + np.max(np.abs(np.asarray(gm.weights_) - np.asarray(g3.weights_)))
                            if not (np.isfinite(dm) and np.isfinite(dw)) or dm > tol or dw > tol:
                                # an iteration-count flip at the EM stopping threshold is a tie, recognisable by equal-quality optima
                                lb_close = abs(float(gm.lower_bound_) - float(g2.lower_bound_)) <= 2 * gm.tol
                                if not lb_close:
                                    res.violate(f"gmm[{_pl(shift, scale)},k={k}]:replication", f"integer weights are not equivalent to replicating points: means differ by {dm:.3g} of the data scale, weights by {dw:.3g} "
                                                f"(d={d}, n={n}, layout={layout}, k={k}, {ct}, weights={wname}, shift={shift}, scale={scale})", cc)
                                else:
                                    res.bump("replication_tie")
                            if du >= 10 * tol:
                                res.bump("replication_nontrivial")
    res.states += 1
    res.sample({"d": d, "n": n, "layout": layout, "sep": sep, "placements": case["placements"], "weight_patterns": list(pats)}, cap=1)
    return res


def run_hgm(case):
    from tempest.cluster import HierarchicalGaussianMixture

    res = Res()
    d, n, layout, sep = case["d"], case["n"], case["layout"], case["sep"]
    X0, blob = make_data(d, n, layout, sep)
    n = len(X0)
    pats = weight_patterns(n, blob)
    lo, hi = X0.min(0), X0.max(0)
    span = np.maximum(hi - lo, 1e-9)
    # arbitrary queries: coarse grid over 3x the bounding box, far-away points, the training points
    g1 = np.linspace(-1.0, 2.0, 4)
    grid = np.array(list(itertools.product(g1, repeat=min(d, 3))))
    if d > 3:
        grid = np.hstack([grid, np.full((len(grid), d - 3), 0.5)])
    Q0 = np.vstack([lo + grid * span, np.full((1, d), 1e6), np.full((1, d), -1e6), X0[: min(n, 20)]])
    for (shift, scale) in case["placements"]:
        X = X0 * scale + shift
        Q = Q0 * scale + shift
        for wname in case["weights"]:
            w = pats[wname]
            for norm in (True, False):
                for thr in (0.5, 1.0, 2.0):
                    for (maxit, minpts, spell) in ((1000, None, "py"), (0, 4 * d, "py"), (1, 4 * d, "py"), (2, 4 * d, "py"), (1000, 4 * d, "np.int64"), (2, 3 * d, "np.int32")):
                        only = [shift, scale, wname, norm, thr, maxit, minpts] + ([spell] if spell != "py" else [])
                        cc = dict(case, only=only)
                        if case.get("only") and case["only"] != only:
                            continue
                        if spell != "py" and thr != 0.5 and not case.get("only"):
                            continue  # numpy-integer spellings of the integer options: with the most split-happy threshold only
                        ity = {"py": int, "np.int64": np.int64, "np.int32": np.int32}[spell]
                        h = HierarchicalGaussianMixture(n_init=1, max_iterations=ity(maxit), min_points=None if minpts is None else ity(minpts), threshold_modifier=thr, covariance_type="full", normalize=norm)
                        with OwnedRandom(23 + env.SEED):
                            with np.errstate(all="ignore"):
                                try:
                                    h.fit(X, w.copy())
                                    lt = h.predict(X)
                                    pt = h.predict_proba(X)
                                    lq = h.predict(Q)
                                    pq = h.predict_proba(Q)
                                except Exception as e:
                                    res.violate(f"hgm[{_pl(shift, scale)},normalize={norm}]:raises:{type(e).__name__}", f"HierarchicalGaussianMixture(normalize={norm}, thr={thr}, max_iterations={maxit}, min_points={minpts}) raised {e!r} "
                                                f"(d={d}, n={n}, layout={layout}, sep={sep}, shift={shift}, scale={scale}, weights={wname})", cc)
                                    continue
                        res.evals += 1
                        K = h.n_clusters_
                        lab = np.asarray(h.labels_)
                        desc = f"(d={d}, n={n}, layout={layout}, sep={sep}, shift={shift}, scale={scale}, weights={wname}, normalize={norm}, thr={thr}, max_iterations={maxit}, min_points={minpts})"
                        if lab.shape != (n,) or lab.min() < 0 or lab.max() >= K:
                            res.violate(f"hgm[{_pl(shift, scale)},normalize={norm}]:training-labels", f"labels_ are not one label in [0,{K}) per training point {desc}", cc)
                            continue
                        if K > maxit + 1:
                            res.violate(f"hgm[{_pl(shift, scale)},normalize={norm}]:cap", f"{K} clusters with max_iterations={maxit} (cap {maxit + 1}) {desc}", cc)
                        mp = minpts if minpts is not None else 2 * d
                        sizes = np.bincount(lab, minlength=K)
                        if K >= 2 and sizes.min() < mp:
                            res.violate(f"hgm[{_pl(shift, scale)},normalize={norm}]:min-points", f"a split left a child with {sizes.min()} < min_points={mp} points (cluster sizes {sizes.tolist()}) {desc}", cc)
                        for name, L, Pm, m in (("training", lt, pt, n), ("query", lq, pq, len(Q))):
                            L = np.asarray(L)
                            Pm = np.asarray(Pm)
                            if L.shape != (m,) or L.min() < 0 or L.max() >= K:
                                res.violate(f"hgm[{_pl(shift, scale)},normalize={norm}]:predict-range:{name}", f"predict on {name} points returned labels outside [0,{K}) {desc}", cc)
                            if Pm.shape != (m, K) or not np.all(np.isfinite(Pm)) or np.any(Pm < 0) or np.max(np.abs(Pm.sum(1) - 1.0)) > 1e-9:
                                res.violate(f"hgm[{_pl(shift, scale)},normalize={norm}]:proba:{name}", f"predict_proba on {name} points is not a row-stochastic matrix {desc}", cc)
                        if thr == 1.0 and maxit == 1000 and spell == "py" and K >= 2:
                            # a query answered alone, in a pair, or inside the whole batch must get the same label (the pipeline predicts for n_particles rows, possibly 1)
                            allq = np.vstack([X, Q])
                            batch = np.concatenate([np.asarray(lt), np.asarray(lq)])
                            with np.errstate(all="ignore"):
                                for i in range(len(allq)):
                                    one = int(np.asarray(h.predict(allq[i:i + 1])).reshape(-1)[0])
                                    two = int(np.asarray(h.predict(allq[[i, (i + 1) % len(allq)]])).reshape(-1)[0])
                                    res.evals += 2
                                    if one != int(batch[i]) or two != int(batch[i]):
                                        res.violate(f"hgm[{_pl(shift, scale)},normalize={norm}]:predict-batch-consistency", f"point {allq[i].tolist()} is labelled {int(batch[i])} inside the batch of {len(allq)} queries, "
                                                    f"{one} when asked alone and {two} as the first of two {desc}", cc)
                                        break
                        res.outcome((d, n, layout, sep, shift, scale, wname, norm, thr, maxit, minpts, K), nontrivial=(K >= 2 or wname != "uniform"))
                        res.bump(f"K={min(K, 4)}")
    res.states += 1
    res.sample({"d": d, "n": n, "layout": layout, "sep": sep, "queries": len(Q0)}, cap=1)
    return res


def run_refit(case):
    """ONE clusterer object fitted on a sequence of data sets (other dimension, other size): after every fit the invariants hold for the
    data just fitted and the result equals that of a fresh object under the same random tape."""
    from tempest.cluster import HierarchicalGaussianMixture, GaussianMixture

    res = Res()
    seq = case["seq"]  # list of [d, n, layout, sep]
    for cls in ("hgm", "gmm"):
        for opts in ({"min_points": None, "max_iterations": 1000}, {"min_points": None, "max_iterations": 2}, {"min_points": 7, "max_iterations": 1000}) if cls == "hgm" else ({"k": 2}, {"k": 3}):
            def make():
                if cls == "hgm":
                    return HierarchicalGaussianMixture(n_init=1, threshold_modifier=0.5, covariance_type="full", normalize=case["normalize"], **opts)
                return GaussianMixture(n_components=opts["k"], covariance_type="full", n_init=1)
            obj = make()
            hist = []
            for step, (d, n, layout, sep) in enumerate(seq):
                if step and case.get("via"):  # between two fits the object goes through a pickle round trip / a copy
                    import copy as _copy
                    import pickle as _pickle
                    obj = {"pickle": lambda o: _pickle.loads(_pickle.dumps(o)), "deepcopy": _copy.deepcopy, "copy": _copy.copy}[case["via"]](obj)
                X, blob = make_data(d, n, layout, sep)
                w = weight_patterns(len(X), blob)[case["weights"]]
                hist.append(f"(d={d}, n={len(X)}, {layout}, sep={sep})")
                outs = []
                for o in (obj, make()):
                    with OwnedRandom(23 + env.SEED):
                        with np.errstate(all="ignore"):
                            try:
                                o.fit(X, w.copy())
                                outs.append((np.asarray(o.predict(X)).copy(), int(getattr(o, "n_clusters_", 0) or getattr(o, "n_components", 0))))
                            except Exception as e:
                                outs.append(e)
                res.evals += 2
                res.trans += 1
                used, fresh = outs
                tag = f"{cls}{opts} fitted in turn on {' then '.join(hist)}" + (f" (object passed through {case['via']} between fits)" if case.get("via") else "")
                cc = dict(case, seq=seq[: step + 1])
                if isinstance(fresh, Exception):
                    res.bump("fresh_fit_raises")  # owned by the gmm/hgm phases
                    break
                if isinstance(used, Exception):
                    res.violate(f"refit:{cls}:raises:{type(used).__name__}", f"{tag}: the re-used object raised {used!r}, a fresh object fits the last data set", cc)
                    break
                (lu, Ku), (lf, Kf) = used, fresh
                if cls == "hgm":
                    sizes = np.bincount(lu, minlength=max(Ku, 1))
                    mp = opts["min_points"] if opts["min_points"] is not None else 2 * d
                    if Ku >= 2 and sizes.min() < mp:
                        res.violate("refit:hgm:min-points", f"{tag}: a split left a child with {sizes.min()} < min_points = {mp} points (cluster sizes {sizes.tolist()})", cc)
                    if Ku > opts["max_iterations"] + 1:
                        res.violate("refit:hgm:cap", f"{tag}: {Ku} clusters, cap {opts['max_iterations'] + 1}", cc)
                if Ku != Kf or not np.array_equal(lu, lf):
                    res.violate(f"refit:{cls}:differs-from-fresh", f"{tag}: the re-used object gives K={Ku}, labels {lu.tolist()[:24]}; a fresh object under the same tape K={Kf}, labels {lf.tolist()[:24]}", cc)
                res.outcome((cls, str(opts), tuple(map(tuple, seq[: step + 1])), Ku), nontrivial=step > 0)
    res.states += 1
    return res


def run_scale15(case):
    """Scale: many clusters (more leaves than any small data set produces) under every cap, and query batches of several thousand rows."""
    from tempest.cluster import HierarchicalGaussianMixture

    res = Res()
    d, n, k = case["d"], case["n"], case["k"]
    X, blob = make_data(d, n, "manyblob", k)
    w = np.ones(len(X))
    for cap in case["caps"]:
        for norm in (True, False):
            cc = dict(case, only=[cap, norm])
            if case.get("only") and case["only"] != [cap, norm]:
                continue
            h = HierarchicalGaussianMixture(n_init=1, max_iterations=1000 if cap is None else cap - 1, min_points=None if cap is None else 4 * d, threshold_modifier=1.0, covariance_type="full", normalize=norm)
            with OwnedRandom(23 + env.SEED):
                with np.errstate(all="ignore"):
                    try:
                        h.fit(X, w.copy())
                        lab = np.asarray(h.predict(X))
                    except Exception as e:
                        res.violate(f"scale:raises:{type(e).__name__}", f"{k} blobs, n={len(X)}, d={d}, cap={cap}: fit/predict raised {e!r}", cc)
                        continue
            res.evals += 1
            K = h.n_clusters_
            res.outcome(("scale", d, n, k, cap, norm, K), nontrivial=K >= 4)
            if cap is not None and K > cap:
                res.violate("scale:cap", f"{k} well separated blobs, n={len(X)}, d={d}: {K} clusters although the cap is {cap} (max_iterations={cap - 1})", cc)
            if lab.min() < 0 or lab.max() >= K or np.asarray(h.labels_).shape != (len(X),):
                res.violate("scale:labels", f"{k} blobs, cap={cap}: labels outside [0,{K})", cc)
            mp = 2 * d if cap is None else 4 * d
            sizes = np.bincount(np.asarray(h.labels_), minlength=K)
            if K >= 2 and sizes.min() < mp:
                res.violate("scale:min-points", f"{k} blobs, cap={cap}: a cluster of {sizes.min()} < {mp} points", cc)
            # a batch of several thousand queries versus the same queries in small batches
            Q = np.vstack([X + 0.01 * (j + 1) for j in range(case["tile"])])
            with np.errstate(all="ignore"):
                big = np.asarray(h.predict(Q))
                small = np.concatenate([np.asarray(h.predict(Q[i:i + 257])) for i in range(0, len(Q), 257)])
                pb = np.asarray(h.predict_proba(Q))
                ps = np.vstack([np.asarray(h.predict_proba(Q[i:i + 257])) for i in range(0, len(Q), 257)])
            res.evals += 2
            if not np.array_equal(big, small) or not np.allclose(pb, ps, rtol=1e-10, atol=1e-12):
                bad = int(np.sum(big != small))
                res.violate("scale:predict-batch-consistency", f"{k} blobs, K={K}: {bad} of {len(Q)} queries get another label (or other probabilities) inside one batch of {len(Q)} rows than in batches of 257 rows", cc)
    res.states += 1
    return res


def run_cforms(case):
    """The same data / sample weights (quantised so that every spelling carries them exactly) as another container, dtype or memory layout:
    same labels, same mixture, for both models, under the same random tape."""
    from mc import forms as fm
    from tempest.cluster import HierarchicalGaussianMixture, GaussianMixture

    res = Res()
    d, n, layout, sep = case["d"], case["n"], case["layout"], case["sep"]
    X0, blob = make_data(d, n, layout, sep)
    X = np.round(X0 * 64) / 64
    n = len(X)
    w = np.array([1, 2, 5])[np.arange(n) % 3].astype(float)
    w[blob == blob.max()] *= 4.0

    def fit(cls, Xv, wv):
        with OwnedRandom(23 + env.SEED):
            with np.errstate(all="ignore"):
                g = GaussianMixture(n_components=2, covariance_type="full", n_init=1) if cls == "gmm" else HierarchicalGaussianMixture(n_init=1, threshold_modifier=0.5, covariance_type="full", normalize=case["normalize"])
                g.fit(Xv, wv)
                lab = np.asarray(g.predict(X.copy())).tolist()
                par = np.asarray(g.weights_, dtype=float) if cls == "gmm" else np.asarray(g.predict_proba(X.copy()), dtype=float)
                return lab, par

    kinds = ("list", "tuple", "strided", "revstrided", "fortran", "readonly", "f32", "i64", "i32", "longdouble")
    for cls in ("gmm", "hgm"):
        try:
            ref = fit(cls, X.copy(), w.copy())
        except Exception:
            res.bump("reference_fit_raises")
            continue
        for which, base in (("X", X), ("sample_weight", w)):
            for kind in kinds:
                v = fm.form(base, kind)
                if v is None or (which == "X" and kind in ("i64", "i32")):
                    continue
                cc = dict(case, only=[cls, which, kind])
                if case.get("only") and case["only"] != [cls, which, kind]:
                    continue
                try:
                    got = fit(cls, v if which == "X" else X.copy(), v if which == "sample_weight" else w.copy())
                except Exception as e:
                    res.violate(f"cforms:{cls}:{which}:{kind}:raises:{type(e).__name__}", f"{cls}.fit raised {e!r} when {which} is passed as {kind} (d={d}, n={n}, {layout}); fine as float64 arrays", cc)
                    continue
                res.evals += 1
                res.outcome((cls, d, n, layout, sep, which, kind), nontrivial=True)
                tol = 1e-3 if kind == "f32" else 1e-9
                if got[0] != ref[0] or not fm.same(got[1], ref[1], rtol=tol, atol=tol):
                    res.violate(f"cforms:{cls}:{which}:{kind}", f"{cls}.fit with {which} passed as {kind} (d={d}, n={n}, {layout}, sep={sep}) gives labels {got[0][:16]}..., "
                                f"as float64 arrays {ref[0][:16]}... (same tape)", cc)
    res.states += 1
    return res


KINDS = {"scale": run_scale15, "cforms": run_cforms, "refit": run_refit, "gmm": run_gmm, "hgm": run_hgm}


def plan(ctx):
    th = ctx.thorough
    gm, hg = [], []
    dims = (1, 2, 3, 4, 6) if th else (1, 2, 3)
    for d in dims:
        ns = sorted(set([2 * d, 3 * d, 10, 40] + ([200, 1000] if th else [])))
        for n in ns:
            layouts = [("1blob", 0)] + [(l, s) for l in ("2blob", "3blob") for s in (0, 1, 3, 10)] + [(l, 0) for l in ("collinear", "constcoord", "dup2", "dup5", "twomass")]
            for layout, sep in layouts:
                if layout == "3blob" and n < 6:
                    continue
                if not th and (hash((d, n, layout, sep)) + ctx.seed) % 2 and layout in ("2blob", "3blob") and sep in (1,):
                    continue
                placements = [[0.0, 1.0], [1e3, 1.0], [0.0, 1e-3], [0.0, 1e3]] if th else [[0.0, 1.0], [1e3, 1e-3] if (n + d) % 2 else [0.0, 1e3]]
                if n <= 200:
                    gm.append({"kind": "gmm", "d": d, "n": n, "layout": layout, "sep": sep, "placements": placements})
                hg.append({"kind": "hgm", "d": d, "n": n, "layout": layout, "sep": sep, "placements": placements[:2],
                           "weights": ["uniform", "int125", "geom1e-2", "zeros-blob", "dominant"] if th else ["uniform", "geom1e-2", "zeros-blob"]})
    ctx.bounds.update({"dims": list(dims), "gmm_data_sets": len(gm), "hgm_data_sets": len(hg), "covariance_types": ["full", "diag"], "components": [1, 2, 3]})
    ctx.explore("gaussian-mixture", gm)
    ctx.explore("hierarchical", hg)
    # object re-use: every ordered pair (triple in thorough) of a small set of data sets of different dimension / size through one object
    pool = [[1, 12, "2blob", 10], [2, 12, "2blob", 10], [3, 24, "3blob", 10], [4, 20, "2blob", 3], [2, 40, "1blob", 0]]
    seqs = [list(p) for r in ((2, 3) if th else (2,)) for p in itertools.permutations(pool, r)]
    rf = [{"kind": "refit", "seq": sq, "normalize": nm, "weights": wn} for sq in seqs for nm in (True, False) for wn in (("uniform", "geom1e-2") if th else ("uniform",))]
    rf += [{"kind": "refit", "seq": sq, "normalize": True, "weights": "uniform", "via": via} for sq in seqs[:: (1 if th else 2)] for via in ("pickle", "deepcopy", "copy")]
    ctx.bounds["refit_sequences"] = len(rf)
    ctx.explore("object-reuse", rf)
    cf = [{"kind": "cforms", "d": d, "n": n, "layout": lay, "sep": sep, "normalize": nm} for d in (1, 2, 3) for n in (12, 40) for lay, sep in (("2blob", 10), ("3blob", 3), ("1blob", 0), ("dup2", 0)) for nm in (True, False)]
    ctx.explore("data-and-weight-array-forms", cf)
    ctx.explore("many-clusters-and-large-batches", [{"kind": "scale", "d": d_, "n": n_, "k": k_, "caps": [None, 2, 5, 10, 12, 20], "tile": t_} for d_, n_, k_, t_ in ((2, 990, 30, 6), (2, 600, 12, 9), (3, 800, 16, 7))])
