"""C16 - Boundary maps fold every real number into the unit interval correctly.

Exhaustive enumeration of a structured-double lattice (signed zeros, subnormals, every binade
edge from 2^-60 to 2^70 and up to 2^1023 with ulp neighbours, integers and half/quarter points
with ulp neighbours, 2^53/2^63 edges, 1e300, decimal tenths) x every assignment of
{strict, periodic, reflective} to the coordinates of 1-D (d<=3) and 2-D arrays, against an exact
rational oracle.
"""
import itertools
import math
from fractions import Fraction as F

import numpy as np

from mc import env
from mc.core import Res

LEVEL = "exploration"
RULE = ("inputs = (value v of the structured-double lattice, array shape, coordinate carrying v, assignment of strict/periodic/reflective to every "
        "coordinate), full product; oracle = exact rational mod-1 / period-2 triangle fold (+-1 ulp, end points 0~1 identified for periodic), "
        "untouched strict coordinates, idempotence, input not mutated, exact truth table of check_bounds; distinct = (v, role); "
        "non-trivial = v outside [0,1] folded by a designated coordinate.")
ASSUMPTIONS = ["finite doubles only (NaN/inf are outside the property)", "results are accepted within an absolute error of 2^-52 (one ulp of 1.0) of the exact rational fold"]


def lattice_values():
    V = set()
    for s in (1.0, -1.0):
        V.update([s * 0.0, s * 5e-324, s * 2.2250738585072014e-308])
        for k in list(range(-60, 71)) + [100, 300, 500, 1000, 1023]:
            x = s * (2.0 ** k)
            V.update([x, float(np.nextafter(x, np.inf)), float(np.nextafter(x, -np.inf))])
        for x in (2.0 ** 53 - 1, 2.0 ** 53, 2.0 ** 53 + 2, 2.0 ** 63, 2.0 ** 63 - 1024, 2.0 ** 63 + 2048, 2.0 ** 64, 1e300, 1.7976931348623157e308, 1e19, 1e18, 9.3e18):
            V.add(s * x)
    for m in range(-6, 7):
        for off in (0.0, 0.5, -0.5, 0.25, -0.25, 1.0 - 2.0 ** -53, -(1.0 - 2.0 ** -53)):
            x = m + off
            V.update([x, float(np.nextafter(x, np.inf)), float(np.nextafter(x, -np.inf))])
    for j in range(-30, 31):
        V.add(j / 10.0)
    V = sorted(v for v in V if math.isfinite(v))
    return V


def exact_periodic(v):
    fv = F(v)
    return fv - math.floor(fv)


def exact_reflect(v):
    fv = F(v)
    r = fv - 2 * math.floor(fv / 2)  # in [0,2)
    return 1 - abs(r - 1)


def close(real, exact, allow_wrap):
    """|real - exact| <= 1 ulp; for periodic the circle identifies 0 and 1."""
    if not (isinstance(real, float) and math.isfinite(real) and 0.0 <= real <= 1.0):
        return False
    # the fold is computed through O(1) intermediates (v - floor(v), 1 - r): absolute error of a few ulp(1) is rounding, not a defect
    tol = F(2.0 ** -52)
    if abs(F(real) - exact) <= tol:
        return True
    if allow_wrap:
        if real == 1.0 and exact <= tol:
            return True
        if real == 0.0 and 1 - exact <= tol:
            return True
        if abs(F(real) - exact) >= 1 - tol:
            return True
    return False


# legal spellings of an index collection (the configuration accepts any iterable of integers)
CONTAINERS = {"list": list, "array": lambda v: np.array(v), "tuple": tuple, "set": set, "frozenset": frozenset, "keys": lambda v: dict.fromkeys(v).keys(),
              "npint-list": lambda v: [np.int64(i) for i in v], "i32-array": lambda v: np.array(v, dtype=np.int32), "u8-array": lambda v: np.array(v, dtype=np.uint8),
              "reversed-list": lambda v: list(v)[::-1], "repeated-list": lambda v: list(v) + list(v)}

DYADIC = [-1024.5, -3.25, -2.0, -1.0, -0.25, -0.0, 0.0, 0.25, 0.5, 1.0, 1.5, 2.0, 7.5, 2047.75]

SENT_IN = 0.5
SENT_OUT = (-3.25, 7.5)


def run_block(case):
    from tempest.mcmc import apply_boundary_conditions, check_bounds

    res = Res()
    d = case["d"]
    roles = case["roles"]  # per coordinate: 's','p','r'
    two_d = case["two_d"]
    V = lattice_values()
    if case.get("v") is not None:
        V = [float.fromhex(case["v"])]
    per = [i for i in range(d) if roles[i] == "p"]
    ref = [i for i in range(d) if roles[i] == "r"]
    variants = [(per or None, ref or None)]
    if not per or not ref:
        variants.append((per if per else [], ref if ref else []))  # empty lists instead of None
    cont = CONTAINERS[case.get("container") or ("array" if case["as_array"] else "list")]
    variants = [(cont(p) if p else p, cont(r) if r else r) for p, r in variants]
    if case.get("container") and case.get("v") is None:
        V = V[::case.get("stride", 1)]
    vform = case.get("vform")  # the point array presented as another dtype / memory layout (values exactly representable in it)
    if vform and case.get("v") is None:
        V = DYADIC
    for j in range(d):
        for v in V:
            for sent in ((SENT_IN,) + SENT_OUT if roles[j] != "s" else (SENT_IN,)):
                row = np.array([sent] * d, dtype=float)
                row[j] = v
                arr = np.array([row, [SENT_IN] * d]) if two_d else row
                if vform:
                    from mc import forms as fm
                    arr = fm.form(arr, vform)
                    if arr is None:
                        continue
                for pa, ra in variants[:1] if v != V[0] else variants:
                    cc = dict(case, v=float(v).hex(), j=j, sent=sent)
                    keep = arr.copy()
                    with np.errstate(all="ignore"):
                        try:
                            out = apply_boundary_conditions(arr, pa, ra)
                            ok = check_bounds(out, pa, ra)
                        except Exception as e:
                            res.violate(f"fold:raises:{type(e).__name__}", f"apply_boundary_conditions/check_bounds raised {e!r} for v={v!r} roles={roles}", cc)
                            continue
                    res.evals += 1
                    if not np.array_equal(arr, keep) or (arr.tobytes() != keep.tobytes()):
                        res.violate("fold:input-mutated", f"input array was modified (v={v!r}, roles={roles})", cc)
                    o = out[0] if two_d else out
                    if out.shape != arr.shape:
                        res.violate("fold:shape", f"shape {out.shape} for input {arr.shape}", cc)
                        continue
                    # untouched coordinates
                    for i in range(d):
                        if roles[i] == "s" and o[i].tobytes() != (arr[0] if two_d else arr)[i].tobytes():
                            res.violate("fold:strict-touched", f"non-designated coordinate {i} changed from {(arr[0] if two_d else arr)[i]!r} to {o[i]!r}", cc)
                    role = roles[j]
                    got = float(o[j])
                    if role == "p":
                        ex = exact_periodic(v)
                        if not close(got, ex, True):
                            res.violate("fold:periodic", f"periodic fold of {v!r} ({float(v).hex()}) gave {got!r}, exact value mod 1 is {float(ex)!r}", cc)
                    elif role == "r":
                        ex = exact_reflect(v)
                        if not close(got, ex, False):
                            big = "huge" if abs(v) >= 2.0 ** 62 else "moderate"
                            res.violate(f"fold:reflective:{big}", f"reflective fold of {v!r} ({float(v).hex()}) gave {got!r}, exact triangle-wave value is {float(ex)!r}", cc)
                    if role != "s" and 0.0 <= got <= 1.0:
                        # idempotence
                        with np.errstate(all="ignore"):
                            out2 = apply_boundary_conditions(out, pa, ra)
                        g2 = float((out2[0] if two_d else out2)[j])
                        same = (g2 == got) or (role == "p" and {g2, got} == {0.0, 1.0})
                        if not same:
                            res.violate(f"fold:idempotent:{role}", f"applying the map twice to {v!r}: {got!r} then {g2!r}", cc)
                    # check_bounds truth table on the folded point
                    strict = [i for i in range(d) if roles[i] == "s"]
                    if two_d:
                        want = [all(0.0 <= float(out[r_][i]) <= 1.0 for i in strict) for r_ in range(2)]
                        gotb = [bool(b) for b in np.asarray(ok).tolist()] if np.ndim(ok) == 1 else None
                        if gotb != want:
                            res.violate("bounds:truth", f"check_bounds returned {ok!r}, expected {want} (v={v!r} roles={roles})", cc)
                    else:
                        want = all(0.0 <= float(out[i]) <= 1.0 for i in strict)
                        if bool(ok) != want or np.ndim(ok) != 0:
                            res.violate("bounds:truth", f"check_bounds returned {ok!r}, expected {want} (v={v!r} at {j}, roles={roles})", cc)
                    res.outcome((float(v).hex(), role), nontrivial=(role != "s" and not (0.0 <= v <= 1.0)))
    res.states += len(V) * d
    if case.get("sample") and len(V) > 3:
        res.sample({"d": d, "roles": roles, "two_d": two_d, "values": len(V), "examples": [V[3], V[len(V) // 2], V[-2]]})
    return res


def _fold_exact(v, role):
    if role == "p":
        return v - math.floor(v)
    if role == "r":
        r = v - 2.0 * math.floor(v / 2.0)
        return 1.0 - abs(r - 1.0)
    return v


def run_usage(case):
    """How the real kernels USE the boundary maps, over every ordered pair (A then B) of boundary configurations in one process:
    a kernel call under configuration A, then one real step of 3 walkers under B with scripted innovations that push every walker
    across a wall.  Expected result from first principles: designated coordinates folded, a proposal leaving through a hard wall rejected."""
    from tempest.mcmc import parallel_mcmc
    from tempest.modes import ModeStatistics
    from mc.tape import OwnedRandom

    res = Res()
    d = 2
    kern = case["kernel"]
    cov = np.diag([0.04, 0.09])
    mu = np.array([0.45, 0.55])
    ms = ModeStatistics(mu[None, :], cov[None, :, :], np.array([4.0]))
    chol = np.sqrt(cov)
    s0 = 2.38 / math.sqrt(d)
    U = np.array([[0.12, 0.5], [0.5, 0.9], [0.85, 0.15]])
    Z = np.array([[-3.0, 0.4], [0.3, 3.0], [2.5, -2.5]])
    g = 0.8
    roles_all = [a + b for a in "spr" for b in "spr"]

    def args_of(roles):
        per = [i for i in range(d) if roles[i] == "p"] or None
        ref = [i for i in range(d) if roles[i] == "r"] or None
        return per, ref

    def one(roles, Zs, spy):
        per, ref = args_of(roles)
        zi = [0]

        def h_randn(t, *a, **k):
            z = Zs[min(zi[0], len(Zs) - 1)]
            zi[0] += 1
            return np.array(z)

        def pt(u):
            spy.append(np.array(u, copy=True))
            return np.array(u, copy=True)

        with OwnedRandom(1, handlers={"randn": h_randn, "gamma": lambda t, shape=None, scale=1.0, size=None: g, "rand": lambda t, *a, **k: np.zeros(a) if a else 0.0}):
            return parallel_mcmc(u=U.copy(), x=U.copy(), logl=np.zeros(3), blobs=None, assignments=np.zeros(3, dtype=int), beta=1.0, mode_stats=ms,
                                 log_likelihood=lambda x: (np.zeros(len(x)), None), prior_transform=pt, n_steps=1, n_max=0, sample=kern,
                                 periodic=per, reflective=ref, verbose=False)

    # NB: the whole ordered sequence of configurations is ONE execution (state may leak between kernel instances); a replay
    # therefore re-executes the sequence from the start, never a single pair in isolation
    for A in (roles_all if case["A"] is None else [case["A"]]):
        for B in roles_all:
            try:
                one(A, Z, [])           # history: a kernel under configuration A in the same process
                spy = []
                out = one(B, Z, spy)
            except Exception as e:
                res.violate(f"usage:raises:{type(e).__name__}", f"{kern} kernel raised {e!r} under boundaries {B} after a run under {A}", dict(case, at_A=A, at_B=B))
                continue
            res.evals += 1
            res.trans += 2
            res.states += 1
            got = np.asarray(out[0])
            ok = True
            for k in range(3):
                if kern == "rwm":
                    free = U[k] + s0 * (chol @ Z[k])
                else:
                    sg = min(s0, 0.99)
                    free = mu + math.sqrt(1 - sg ** 2) * (U[k] - mu) + sg * math.sqrt(1.0 / g) * (chol @ Z[k])
                folded = np.array([_fold_exact(float(free[i]), B[i]) for i in range(d)])
                valid = all(0.0 <= folded[i] <= 1.0 for i in range(d) if B[i] == "s")
                want = folded if valid else U[k]
                if np.max(np.abs(got[k] - want)) > 1e-12:
                    kind = "designated-coordinate-not-folded" if valid else "hard-wall-not-enforced"
                    res.violate(f"usage:{kind}", f"{kern} under boundaries {B} (per coordinate; s=hard, p=periodic, r=reflective) after a kernel run under {A}: walker {k} at {U[k].tolist()} with free proposal "
                                f"{free.tolist()} ended at {got[k].tolist()}, expected {want.tolist()}", dict(case, at_A=A, at_B=B))
                    ok = False
                    break
            res.outcome((kern, A, B), nontrivial=(A != B))
    res.traces += 1
    res.sample({"kernel": kern, "ordered_pairs_of_boundary_configurations": len(roles_all) ** 2 if case["A"] is None else len(roles_all)}, cap=1)
    return res


def run_print(case):
    """Process-wide numpy print options abbreviate long arrays ("[0 1 ... 6 7]"); they must have no influence on the maps.  In d=8, every ordered
    pair (A then B) of index-array configurations that agree in their first and last two entries, under abbreviating print options and under the
    default ones: fold and bounds test against first principles (per coordinate)."""
    from tempest.mcmc import apply_boundary_conditions, check_bounds

    res = Res()
    d = 8
    sets = [[0, 1, 2, 3, 6, 7], [0, 1, 4, 5, 6, 7], [0, 1, 2, 5, 6, 7], [0, 1, 3, 4, 6, 7]]
    cfgs = [(np.array(a), None) for a in sets] + [(None, np.array(a)) for a in sets] + [(np.array([0, 1, 2, 3, 4, 5, 6]), None), (np.array([0, 1, 2, 3, 4, 6, 7]), None)]
    pts = []
    for j in range(d):
        for v in (-0.25, 1.5, 0.5):
            row = np.full(d, 0.5)
            row[j] = v
            pts.append(row)
    P = np.array(pts)
    ctxs = {"abbreviated": dict(threshold=5, edgeitems=2), "default": {}}
    for mode, opts in ctxs.items():
        with np.printoptions(**opts):
            for ia, A in enumerate(cfgs):
                for ib, B in enumerate(cfgs):
                    if case.get("only") and case["only"] != [mode, ia, ib]:
                        continue
                    for which, (per, ref) in (("first", A), ("second", B)):
                        out = apply_boundary_conditions(P.copy(), per, ref)
                        ok = np.asarray(check_bounds(out, per, ref))
                        res.evals += 1
                        pset = set() if per is None else set(int(i) for i in per)
                        rset = set() if ref is None else set(int(i) for i in ref)
                        for r, row in enumerate(P):
                            want_row = np.array([_fold_exact(row[i], "p" if i in pset else ("r" if i in rset else "s")) for i in range(d)])
                            want_ok = all(0.0 <= want_row[i] <= 1.0 for i in range(d) if i not in pset and i not in rset)
                            if not np.allclose(out[r], want_row, atol=1e-15) or bool(ok[r]) != want_ok:
                                res.violate(f"printoptions:{mode}", f"numpy print options {opts or 'default'}; configuration periodic={None if per is None else per.tolist()} reflective={None if ref is None else ref.tolist()} "
                                            f"used {which} of the pair ({ia},{ib}): point {row.tolist()} -> {out[r].tolist()} accepted={bool(ok[r])}, expected {want_row.tolist()} accepted={want_ok}",
                                            {"kind": "print", "only": [mode, ia, ib]})
                                break
                    res.outcome(("print", mode, ia, ib), nontrivial=ia != ib)
    res.states += 1
    return res


def run_big16(case):
    """Scale: ensembles of 7e4 .. 2e5 points (more rows than any block size a vectorisation would pick), dimension up to 8: every row is folded and
    bounds-tested exactly like the same row handed over alone."""
    from tempest.mcmc import apply_boundary_conditions, check_bounds

    res = Res()
    n, d, per, ref = case["n"], case["d"], case["per"], case["ref"]
    vals = np.array(DYADIC + [-5e-324, 1.0000000000000002, -0.5, 0.75, 3.0, 0.125])
    P = vals[(np.arange(n)[:, None] * (2 * np.arange(d)[None, :] + 1) + np.arange(d)[None, :]) % len(vals)]
    pa, ra = (per or None), (ref or None)
    with np.errstate(all="ignore"):
        out = np.asarray(apply_boundary_conditions(P.copy(), pa, ra))
        ok = np.asarray(check_bounds(out, pa, ra))
    res.evals += 1
    roles = ["p" if i in per else ("r" if i in ref else "s") for i in range(d)]
    want = np.array([[_fold_exact(P[r_, i], roles[i]) for i in range(d)] for r_ in range(n)]) if n <= 5000 else None
    # reference row by row through the same functions in small batches (decided exhaustively by the lattice phases)
    bad = None
    for a in range(0, n, 509):
        with np.errstate(all="ignore"):
            o2 = np.asarray(apply_boundary_conditions(P[a:a + 509].copy(), pa, ra))
            k2 = np.asarray(check_bounds(o2, pa, ra))
        if not np.array_equal(o2, out[a:a + 509], equal_nan=True) or not np.array_equal(k2, ok[a:a + 509]):
            j = int(np.flatnonzero(np.any(o2 != out[a:a + 509], axis=1) | (k2 != ok[a:a + 509]))[0])
            bad = (a + j, out[a + j].tolist(), bool(ok[a + j]), o2[j].tolist(), bool(k2[j]))
            break
    res.states += n
    res.outcome(("big", n, d, tuple(per), tuple(ref)), nontrivial=True)
    if bad is not None:
        res.violate("big:differs-from-small-batches", f"{n} x {d} points, periodic={per} reflective={ref}: row {bad[0]} gives {bad[1]} accepted={bad[2]} inside the large array but {bad[3]} accepted={bad[4]} in a batch of 509 rows", dict(case))
    return res


KINDS = {"big": run_big16, "print": run_print, "block": run_block, "usage": run_usage}


def plan(ctx):
    th = ctx.thorough
    cases = []
    for d in (1, 2, 3):
        for roles in itertools.product("spr", repeat=d):
            for two_d in (False, True):
                if not th and d == 3 and two_d and (hash(roles) + ctx.seed) % 3:
                    continue
                cases.append({"kind": "block", "d": d, "roles": list(roles), "two_d": two_d, "as_array": (len(cases) % 2 == 1), "sample": len(cases) in (2, 30)})
    ctx.bounds.update({"values": len(lattice_values()), "d": [1, 2, 3], "role_assignments": "all 3^d", "shapes": ["(d,)", "(2,d)"], "blocks": len(cases)})
    if not th:
        ctx.notes.append("quick: for d=3 two-dimensional arrays only every third role assignment (rotated by VERIF_SEED); everything else complete")
    ctx.explore("structured-double-lattice", cases)
    # the same lattice (every 4th value; every value in thorough) with every other legal spelling of the index collections
    cc = []
    for d in (1, 2, 3):
        for roles in itertools.product("spr", repeat=d):
            if set(roles) == {"s"}:
                continue
            for k, cname in enumerate(c for c in CONTAINERS if c not in ("list", "array")):
                two_d = bool((k + len(cc)) % 2)
                if not th and d == 3 and (hash((roles, cname)) + ctx.seed) % 3:
                    continue
                cc.append({"kind": "block", "d": d, "roles": list(roles), "two_d": two_d, "as_array": False, "container": cname, "stride": 1 if th else 4})
    ctx.bounds["index_collection_spellings"] = list(CONTAINERS)
    ctx.explore("index-collection-spellings", cc)
    vf = [{"kind": "block", "d": d, "roles": list(roles), "two_d": two_d, "as_array": False, "vform": k}
          for d in (1, 2, 3) for roles in itertools.product("spr", repeat=d) if set(roles) != {"s"} for two_d in (False, True)
          for k in ("strided", "revstrided", "fortran", "readonly", "f32", "f16", "longdouble")]
    ctx.bounds["point_array_forms"] = ["strided", "revstrided", "fortran", "readonly", "f32", "f16", "longdouble"]
    ctx.explore("point-array-forms", vf, chunksize=8)
    ctx.explore("numpy-print-options", [{"kind": "print"}])
    ctx.explore("large-ensembles", [{"kind": "big", "n": n_, "d": d_, "per": p_, "ref": r_} for n_, d_, p_, r_ in
                                    ((70001, 1, [], []), (9000, 8, [0], [3]), (40000, 4, [1], [2]), (200003, 3, [], []), (131073, 2, [0], []))])
    # each case runs in ONE process in a fixed order, so state leaking between kernel instances is part of the explored history
    ctx.explore("kernel-usage-of-the-maps", [{"kind": "usage", "kernel": k, "A": None} for k in ("rwm", "tpcn")])
