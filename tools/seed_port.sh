#!/bin/bash
# tools/seed_port.sh : for every seeded change whose patch no longer applies to /repo's HEAD (a later fix rewrote neighbouring lines),
# re-create the patch with a three-way merge on a scratch worktree; the original is kept as patch.orig-<commit>.diff.  Prints what was done.
cd "$(dirname "$0")/.."
wt=/tmp/seedport_$$
git -C /repo worktree add -q --detach $wt HEAD
head=$(git -C /repo log --format=%h -1)
for d in seeded/C*-*m*; do
  git -C $wt checkout -q -- . ; git -C $wt clean -fdq
  if git -C $wt apply --check $PWD/$d/patch.diff 2>/dev/null; then continue; fi
  if git -C $wt apply -3 $PWD/$d/patch.diff >/dev/null 2>&1 && ! git -C $wt diff --name-only --diff-filter=U | grep -q .; then
    git -C $wt diff HEAD > /tmp/ported_$$.diff
    git -C $wt reset -q --hard HEAD
    cp $d/patch.diff $d/patch.orig-before-$head.diff
    cp /tmp/ported_$$.diff $d/patch.diff
    echo "PORTED $d to $head"
  else
    git -C $wt reset -q --hard HEAD
    echo "CONFLICT $d (left as is)"
  fi
done
git -C /repo worktree remove --force $wt; rm -f /tmp/ported_$$.diff
