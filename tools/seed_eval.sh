#!/bin/bash
# tools/seed_eval.sh <patch file> <check ids...> : apply a seeded change to /repo, run checks (evidence redirected), undo.
p=$1; shift
cd /repo && git diff --quiet || { echo "repo dirty"; exit 3; }
git apply "$p" || { echo "PATCH DOES NOT APPLY to /repo"; exit 3; }
for k in "$@"; do (cd /verif && VERIF_EVIDENCE_DIR=/tmp/verif_mutant_evidence timeout 1500 ./check $k 2>&1 | grep -E "VIOLATION|^\[|HARNESS|key=" | cut -c1-260 | head -8); done
git -C /repo checkout -- .
