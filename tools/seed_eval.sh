#!/bin/bash
# tools/seed_eval.sh <patch file> <check ids...> : apply a seeded change to a tree, run checks (evidence redirected), undo.
# The tree is /repo unless SEED_TREE names a scratch worktree (then /repo stays untouched and several evaluations can run side by side).
p=$1; shift
tree=${SEED_TREE:-/repo}
cd $tree && git diff --quiet || { echo "tree dirty: $tree"; exit 3; }
git apply "$p" || { echo "PATCH DOES NOT APPLY to $tree"; exit 3; }
for k in "$@"; do (cd /verif && VERIF_FAILFAST=1 VERIF_REPO=$tree VERIF_EVIDENCE_DIR=/tmp/verif_mutant_evidence_$$ timeout 1500 ./check $k 2>&1 | grep -E "VIOLATION|^\[|HARNESS|key=" | cut -c1-260 | head -8); done
git -C $tree checkout -- .
rm -rf /tmp/verif_mutant_evidence_$$
