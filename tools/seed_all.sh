#!/bin/bash
# tools/seed_all.sh : apply every seeded change in turn and run the check(s) recorded as catching it; prints CAUGHT / MISSED.
cd "$(dirname "$0")/.."
for d in seeded/C*-m*; do
  ids=$(/venv/bin/python -c "import json;print(' '.join(json.load(open('$d/meta.json'))['caught_by'][:1]))")
  out=$(tools/seed_eval.sh $PWD/$d/patch.diff $ids 2>&1)
  if echo "$out" | grep -q "^VIOLATION"; then echo "CAUGHT $d by $ids"; else echo "MISSED $d ($ids)"; echo "$out" | tail -2; fi
done
