#!/bin/bash
# tools/seed_all.sh [lanes] : apply every seeded change in turn (on scratch worktrees of /repo, several lanes side by side) and run
# the check recorded as catching it; prints CAUGHT / MISSED per seed.  /repo itself is never modified.
cd "$(dirname "$0")/.."
lanes=${1:-3}
for i in $(seq 1 $lanes); do git -C /repo worktree add -q --detach /tmp/seedlane_$i HEAD 2>/dev/null; done
ls -d seeded/C*-*m* | awk -v n=$lanes '{print > ("/tmp/seedlane_list_" (NR % n + 1))}'
for i in $(seq 1 $lanes); do
  ( while read d; do
      if grep -q thorough_only $d/meta.json; then echo "THOROUGH-ONLY $d (caught by the thorough tier, see meta.json)"; continue; fi
      if grep -q neutralised_by_fix $d/meta.json; then echo "SKIP $d (no longer property-breaking on the current tree, see meta.json)"; continue; fi
      ids=$(/venv/bin/python -c "import json;print(' '.join(json.load(open('$d/meta.json'))['caught_by'][:1]))")
      out=$(SEED_TREE=/tmp/seedlane_$i VERIF_NPROC=5 tools/seed_eval.sh $PWD/$d/patch.diff $ids 2>&1)
      if echo "$out" | grep -q "^VIOLATION"; then echo "CAUGHT $d by $ids :: $(echo "$out" | grep -v KNOWN | grep "key=" | head -1 | cut -c1-150)"; else echo "MISSED $d ($ids)"; echo "$out" | tail -2; fi
    done < /tmp/seedlane_list_$i ) &
done
wait
for i in $(seq 1 $lanes); do git -C /repo worktree remove --force /tmp/seedlane_$i; rm -f /tmp/seedlane_list_$i; done
