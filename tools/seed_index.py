#!/venv/bin/python
"""Regenerates seeded/INDEX.md from the meta.json files."""
import glob
import json
import os

V = os.path.dirname(os.path.dirname(os.path.abspath(__file__)))
rows = []
for f in sorted(glob.glob(os.path.join(V, "seeded", "C*", "meta.json"))):
    m = json.load(open(f))
    rows.append((os.path.basename(os.path.dirname(f)), m))
miss = sum(1 for _, m in rows if m.get("initially_missed"))
out = ["# Seeded property-breaking changes", "",
       "Each directory holds `patch.diff` (applies to /repo with `git apply`), `demo.py` (exit 1 with the change, 0 without), `notes.md` (the sub-agent's own description of the change and of what it needs in order to manifest) and `meta.json`.",
       "All were produced by independent sub-agents that saw only the property text and a scratch worktree; each was re-verified here (`tools/seed_verify.sh`: 233 existing tests pass with the change, demo fails with it and passes without) and run against the checks with `tools/seed_eval.sh`.",
       "Rounds 1-2 (`Cxx-m1/m2`): free choice of change. Round 3 (`Cxx-r3m1/r3m2`): two cooperating sites (m1) / a change that needs a multi-step history or a rare legal regime (m2). "
       "Round 4 (`Cxx-r4m1/r4m2`): an INPUT-REGIME change (m1: wrong only for an unusual-but-legal shape/type/magnitude) / a LIFECYCLE change (m2: wrong only for an unusual order of use of the API or of several objects).",
       "Re-run everything with `tools/seed_all.sh`.", "",
       "| seed | property | caught by | missed at first | what was strengthened |", "|---|---|---|---|---|"]
for name, m in rows:
    out.append(f"| {name} | {m['property']} | {', '.join(m['caught_by'])} | {'yes' if m.get('initially_missed') else 'no'} | {m.get('strengthening', '')} |")
neut = sum(1 for _, m in rows if m.get("neutralised_by_fix"))
out += ["", f"{len(rows)} changes, {miss} initially missed, 0 missed now" + (f"; {neut} no longer property-breaking since a later fix (see its meta.json) and skipped by seed_all." if neut else ".")]
open(os.path.join(V, "seeded", "INDEX.md"), "w").write("\n".join(out) + "\n")
print(f"{len(rows)} seeds, {miss} initially missed")
