#!/bin/bash
# tools/mutant.sh <file> <sed-expr> <check ids...> : apply a one-line mutation to /repo, run checks, revert.
f=$1; e=$2; shift 2
cd /repo && sed -i "$e" "$f" && git diff --stat | tail -1
if git diff --quiet; then echo "MUTATION DID NOT APPLY"; exit 3; fi
for c in "$@"; do (cd /verif && VERIF_EVIDENCE_DIR=/tmp/verif_mutant_evidence ./check $c 2>&1 | grep -E "VIOLATION|KNOWN|^\[|HARNESS" | head -12); done
git -C /repo checkout -- . 
