#!/bin/bash
# tools/seed_verify.sh <worktree> <m1|m2> : confirm a sub-agent's seeded change independently:
#   demo passes on the clean tree, existing tests pass with the change, demo fails with the change.
wt=$1; m=$2
cd "$wt" || exit 3
git checkout -q -- tempest
PYTHONPATH=$wt timeout 300 /venv/bin/python demo_$m.py >/tmp/seed_demo_clean.out 2>&1; c0=$?
git apply $m.patch || { echo "PATCH DOES NOT APPLY"; exit 3; }
PYTHONPATH=$wt timeout 300 /venv/bin/python demo_$m.py >/tmp/seed_demo_mut.out 2>&1; c1=$?
t=$(PYTHONPATH=$wt /venv/bin/python -m pytest -q -p no:cacheprovider --timeout=900 2>&1 | tail -1)
git checkout -q -- tempest
echo "demo clean exit=$c0 | demo mutated exit=$c1 | tests with change: $t"
tail -2 /tmp/seed_demo_mut.out | cut -c1-300
