#!/opt/veriftools/pyvenv/bin/python
"""Validate MANIFEST.json and evidence/*.json against the task schemas (needs jsonschema: tooling venv)."""
import json, glob, sys, os
import jsonschema
V = os.path.dirname(os.path.dirname(os.path.abspath(__file__)))
ms = json.load(open("/root/.vp/MANIFEST.schema.json")); es = json.load(open("/root/.vp/EVIDENCE.schema.json"))
man = json.load(open(os.path.join(V, "MANIFEST.json")))
jsonschema.validate(man, ms)
ids = [json.loads(l)["id"] for l in open(os.path.join(V, "properties.jsonl"))]
claimed = [c["property_id"] for c in man["checks"]]; na = [c["property_id"] for c in man.get("not_applicable", [])]
assert sorted(claimed + na) == sorted(ids), (claimed, na)
bad = 0
for c in man["checks"]:
    p = c["evidence_file"]
    if not os.path.exists(p):
        print("no evidence yet:", p); continue
    ev = json.load(open(p))
    try:
        jsonschema.validate(ev, es)
        assert ev["level"] == c["level_claimed"]["category"], "level mismatch"
        print("ok", p, ev["tier"], ev["coverage"]["evaluations"], ev["coverage"]["distinct_nontrivial"])
    except Exception as e:
        bad += 1; print("INVALID", p, str(e)[:300])
print("manifest ok;", len(claimed), "claimed,", len(na), "not applicable")
sys.exit(1 if bad else 0)
