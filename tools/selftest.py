#!/venv/bin/python
"""setup_cmd: offline self-test of the machinery (no build step is needed: pure Python on /venv)."""
import os, sys
sys.path.insert(0, os.path.dirname(os.path.dirname(os.path.abspath(__file__))))
os.environ.setdefault("PYTHONHASHSEED", "0")
from mc import env  # binds to /repo
import numpy as np
from mc.tape import OwnedRandom

# 1. tape determinism: same seed -> identical stream; global stream untouched
st = np.random.get_state()[1][:4].copy()
with OwnedRandom(7, audit=True) as t1:
    a = (np.random.rand(3), np.random.randn(2), np.random.choice(5, 3), np.random.gamma(2.0, 1.0))
with OwnedRandom(7) as t2:
    b = (np.random.rand(3), np.random.randn(2), np.random.choice(5, 3), np.random.gamma(2.0, 1.0))
assert all(np.array_equal(x, y) for x, y in zip(a, b)), "tape not deterministic"
assert np.array_equal(st, np.random.get_state()[1][:4]), "global stream disturbed"
assert len(t1.log) == 4
# 2. scripted answer
with OwnedRandom(0, handlers={"random": lambda t, *a, **k: 0.25}):
    assert np.random.random() == 0.25
# 3. the library under test is the working tree
import tempest
assert os.path.realpath(tempest.__file__).startswith(os.path.realpath(env.REPO))
print("selftest ok: tempest from", os.path.dirname(tempest.__file__))
# 4. machinery self-tests (reference models, enumerators, file-system model)
import subprocess
r = subprocess.run([sys.executable, os.path.join(os.path.dirname(os.path.dirname(os.path.abspath(__file__))), "tests", "test_machinery.py")], capture_output=True, text=True)
print(r.stdout.strip())
if r.returncode != 0:
    print(r.stderr[-2000:])
    sys.exit(1)
