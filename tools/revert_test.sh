#!/bin/bash
# tools/revert_test.sh <fix-commit> <check ids...> : re-introduce a repaired defect (reverse-apply the fix), run checks, restore.
c=$1; shift
cd /repo && git diff --quiet || { echo "repo dirty"; exit 3; }
git show $c -- tempest | git apply -R || { echo "reverse apply failed"; exit 3; }
git diff --stat | tail -1
for k in "$@"; do (cd /verif && VERIF_EVIDENCE_DIR=/tmp/verif_mutant_evidence ./check $k 2>&1 | grep -E "VIOLATION|KNOWN|^\[|HARNESS|key=" | head -12); done
git -C /repo checkout -- .
