#!/bin/bash
# tools/run_all.sh [tier] : run every registered check on the current tree, summarise.
cd "$(dirname "$0")/.."
tier=${1:-quick}
for id in $(/venv/bin/python -c "import json;print(' '.join(c['property_id'] for c in json.load(open('MANIFEST.json'))['checks']))"); do
  s=$(date +%s)
  out=$(./check $id --tier $tier 2>&1); rc=$?
  echo "$id rc=$rc $(( $(date +%s)-s ))s :: $(echo "$out" | grep -E '^\[' | tail -1)"
  echo "$out" | grep -E "VIOLATION|KNOWN-FINDING|HARNESS" | head -5
done
