#!/venv/bin/python
"""Regenerates /verif/MANIFEST.json from the table below (kept here so the manifest is always valid)."""
import json
import os

V = os.path.dirname(os.path.dirname(os.path.abspath(__file__)))

# id -> (level, technique, level text, level note, design ref)
CHECKS = {
    "C03": ("model_checking",
            "explicit construction of the exact transition matrix of the real RWM one-step kernel on finite lattices (every cell x every innovation symbol x redraw continuation) with a detailed-balance check per landscape; "
            "for tpCN, extraction of the proposal law from the real _propose under a scripted tape, validation on the tape lattice, and comparison of the real acceptance factor with the Metropolis-Hastings ratio for every ordered grid pair; tape-lattice enumeration for hard walls and image-sum detailed balance for folds; scripted mixing variables honour their size (a proposal using several independently is reported); mode statistics also reach the kernel through pickle / deepcopy / copy; large ensembles (1500 x 32 walkers) are compared walker by walker with the kernel asked about that walker alone",
            "A: the real one-step RWM kernel is executed from every cell of 1-d (M=4,5,6; all 3^M landscapes) and 2-d (3x3, 4x3) lattices with every symbol of a symmetric innovation alphabet, for beta in {0.25,1}, every hard/periodic/reflective assignment and 1-2 clusters; "
            "pi_i P_ij = pi_j P_ji and pi P = pi are checked to 1e-12 on the resulting matrix (exact for RWM, whose correctness uses only the symmetry of the innovation law). "
            "B: for every parameter point (d<=3, K<=2, nu in {0.5,1,5,1e6}, integer-typed nu arrays/lists, three scale matrices, two mode centres, sigma in {0.1,0.5,0.99}) the affine scale-mixture model of the proposal is extracted from the code, replayed on the tape lattice "
            "(g in {0.25,1,4} x z in {-1,0,1}^d) and the code's acceptance factor is compared with log Q(v->u)-log Q(u->v) for all ordered pairs of a 5^d grid. C: alpha and the accept decision on a lattice of likelihood differences (incl. -inf, nan). "
            "D: on the tape lattice near hard walls the kernel must draw once and treat outside proposals as rejections; folded tpCN/RWM kernels are checked in 1-d with 6001-term image sums.",
            "Trusted: closed-form multivariate-t marginal of a normal scale mixture; image sums truncated at |k|<=3000 (tails < 1e-9 for nu>=2). Step-size adaptation across steps is outside the property. tpCN with periodic/reflective coordinates is a recorded known finding.",
            "DESIGN.md §4 C03"),
    "C04": ("exploration",
            "exhaustive lattice enumeration of stored histories against a 60-digit decimal reference of the mixture formula",
            "Every history of a finite lattice (T<=3/4 iterations, all unequal batch-size tuples, temperatures in every order, evidence values in "
            "{-1e3..1e3}, log-likelihoods in {-1e6..1e6}, three target temperatures) is built on the real StateManager through its public API and "
            "compared with a reference written from the formula; permutation invariance over all T! orders and the likelihood-shift law are checked on a fixed stride of them. Typed histories: one integer-valued history stored through every legal spelling of its entries (int64/int32/float32/read-only/strided/list batches x Python and numpy scalars, 0-d arrays for beta and logZ). Several live objects: three StateManagers of one shape alive together, every ordered query sequence of length 2-3. Error-state axis: deep-checked histories are recomputed under numpy error states warn / raise (a value may not change). A child process with an address-space limit just above its footprint may raise MemoryError but not return other values.",
            "Trusted: Python's decimal arithmetic at 60 digits; floating tolerance 64*eps*magnitude. Values outside the finite alphabets are not explored.",
            "DESIGN.md §4 C04"),
    "C05": ("model_checking",
            "explicit enumeration of reweighting transitions: synthetic history lattice x parameters on the real Reweighter, plus every reachable transition of deviation-bounded runs, against a reference MIS model",
            "One real Reweighter.run() transition is executed from every state of a finite lattice of histories x (n_particles, ess_ratio, ESS / volume-variation target) and from "
            "every reachable state of runs whose per-iteration random tape deviates in <=1 (quick) / <=2 (thorough) places from the default, over a covering array of the schedule-relevant options; "
            "monotonicity, range, the ESS guarantee on every advance and the coherence of recorded beta/ESS/logZ/weights are checked on each transition. Also: a boundary-value family placing the ESS crossing (and beta_prev) inside the last BETA_TOLERANCE cell, every sequence of scripted batch types (depth 4/5) through ONE Reweighter instance, and a kernel-input coherence monitor (temperature/kernel/boundaries passed to the mutation kernel). Integer-typed log-likelihood pools are lattice points. A duo-session phase keeps TWO real samplers alive in one process and explores every interleaving of their iterations and read-only queries (depth 4/5) with the coherence monitor on both. Cross-configuration resumes (another particle count, ESS / volume-variation target, kernel, cadence) are monitored transition by transition. Scale ladder: transitions from pools of 3.7e4-6.5e4 samples in golden / sorted / period-k orders; pools with finite sentinel log-likelihoods (-1e300); large pipeline scopes (512 x d=10, 160-iteration runs).",
            "Trusted: the float reference implementation of the mixture formula (cross-checked against the decimal one by C04). Run-level exploration branches over a finite tape alphabet, not over all real-valued draws.",
            "DESIGN.md §4 C05"),
    "C06": ("model_checking",
            "exhaustive enumeration of the random-offset partition (exact rational breakpoints) per (n,w) lattice point; all m^n multinomial answers",
            "Every cell of the exact partition of the uniform offset u0 and the doubles adjacent to every breakpoint are executed on the real "
            "systematic_resample for every (n,w) of a lattice (all compositions of 12 into <=4/5 parts, float-hostile families, in-/out-of-tolerance "
            "sum perturbations); the multinomial path is decided by enumerating every answer of the scripted np.random.choice and comparing the recorded law. The same partition is also driven through the Resampler.run call site (exact zeros, in-tolerance deficits), and a session phase (one sampler through save/load/iterate sequences) checks that resampled particles always come from the current pool. The call-site partition is repeated at the smallest temperatures an annealing iteration can have (2^-14, 1e-5, 9.9e-5, 5e-324); systematic_resample is run with dyadic weights in every legal container / dtype / layout and every integer type for the size, at and next to every breakpoint, with a call-history oracle; duo sessions (two samplers with different schemes, every interleaving) and cross-configuration resumes are monitored by a call-site law monitor (pool order, floor/ceil copy counts w.r.t. the weights handed in). If the multinomial path does not call np.random.choice its law is decided through the uniform variates it consumes (partition of [0,1) by the cumulative weights, breakpoints, 0.0). Sessions include copying the live sampler (pickle / deepcopy) with a lockstep copy-versus-original iteration. Scale ladder: 7e4-2e5 weights, n up to 2e5. Overlapping calls from two threads: every schedule with one preemption (call A interrupted before each of its library lines, call B complete).",
            "Trusted: the rational reference model (mc/refmodels/resample.py), numpy's own choice() implementing the multinomial law it is asked for; "
            "bounded to n*m<=700 (quick)/2500 (thorough).", "DESIGN.md §4 C06"),
    "C07": ("model_checking",
            "complete small-scope enumeration of accept masks / -inf masks / replacement answers on the real kernels and mutation step, plus a record-coherence monitor on every step boundary of deviation-bounded runs over a covering array",
            "All 2^6 accept-mask sequences (3 walkers x 2 steps) of both real kernels for every boundary/prior/blob/cluster-count variant, all -inf masks and replacement-index answers of the prior-sampling "
            "mutation (n<=4), and every step-boundary particle set, committed batch and posterior() return of every run in the deviation-bounded tree are checked row by row against pure fixtures "
            "(x=T(u), logL=f(x), blob=b(x), u in the cube, whole-record moves, append-only history). A session phase drives one sampler object through every save/load/iterate sequence (depth 5/7 + longer roll-back patterns) with the monitors and an accessor oracle (flattened histories, posterior weights, evidence, trimming) after every operation; the session alphabet includes a complete run() on the object in whatever state it is and iterations aborted by a failure of the user's likelihood at its 1st/4th/11th evaluation (every sequence over {S,X1,X4,X11} to depth 3/4; an aborted iteration must leave the committed history unchanged). Fixture axes: scalar blob dtypes, blob shapes (two values, vector, string), numpy-scalar / 0-d / read-only likelihood returns, prior transforms returning a list, writing components by index, or handing back their argument; set-valued boundary collections. Duo sessions (two samplers with different options, every interleaving) and cross-configuration resumes (checkpoint written under options A resumed by a fresh sampler with options B) run under the same monitors. Also: a flat-topped likelihood (exactly tied accepted moves) with blobs, a likelihood whose value depends on the caller's numpy error state (run under over=raise), KeyboardInterrupt as a failure kind, pickle / deepcopy of the live sampler (original must not change, copy must behave like the original), a pseudo-marginal likelihood (blob = call number; logL and blob of a record must come from one call), large scopes (256-1500 particles, d up to 12, runs of 160 iterations).",
            "Trusted: purity/injectivity of the fixtures. Pipeline layer covers option combinations pairwise (quick) / 3-wise (thorough) and a two-symbol tape alphabet per iteration.",
            "DESIGN.md §4 C07"),
    "C08": ("fault_enumeration",
            "crash-point enumeration over the logged raw I/O operations of the real save path on an in-memory file system (every prefix x torn-write offsets), plus restore/resume exploration from every checkpoint of deviation-bounded runs",
            "The real save code runs over an in-memory file system that logs create/write/close/fsync/rename; for a first and an overwriting save in each configuration, every prefix of the log and every torn offset of the in-flight write "
            "is materialised as a crash image whose final name must hold nothing, the complete old or the complete new checkpoint; every checkpoint k written during real runs (clustering, blobs, pool object / real pool, kernel, resampler, progress bar, "
            "picklable and un-picklable stderr) is loaded into a fresh sampler (bit-equal current+history, n_total) and resumed (numbering k+1, calls, schedule, immutable prefix, run post-conditions). Crash points are enumerated for every checkpoint written by run(save_every)/sample(save_every) themselves as well as for save_state(); every resumed run is also resumed with a 3x larger n_total, and late checkpoints with a smaller (already satisfied) one. Every distinct crash image of an overwriting save becomes the directory a further save is made into (must succeed, restore exactly, and be atomic itself); blobs may be NaN or vectors; checkpoints of tens of MiB are saved, restored exactly, overwritten and resumed.",
            "Trusted: the process-crash model (completed writes persist, in-flight write torn, buffers lost; no power-loss reordering); I/O is intercepted at open/os/pathlib as resolved by tempest.core and tempest.state_manager.", "DESIGN.md §4 C08"),
    "C09": ("model_checking",
            "explicit-state search over all sequences of library operations up to a depth, each executed from two pre-seeds on the real global generator plus once under an auditing tape; triple-run reproducibility over a covering array",
            "All sequences (depth 2 quick / 3 thorough) over 19 public operations (mixture fits, hierarchical fit/predict, mode statistics, Student-t fit, trimming, resampling, the four pipeline steps, sample(), run(), posterior(resample), save, load) "
            "are executed from pre-seeds 101 and 202: the generator state and the next draws afterwards must differ, and no library frame may call np.random.seed when no Sampler random_state is configured; every configuration x random_state "
            "is run three times in one process (back to back, and after disturbing the global stream) and must be bit-identical, different seeds must differ; inside clustering runs the generator state after every iteration must depend on the pre-seed. A seeding-discipline phase audits every np.random.seed / default_rng call made by library frames during runs with and without random_state, cluster cadences 1-3 and periodic checkpoints. No-replayed-innovations phases: on a seeded sampler whose stream the harness never re-seeds, every save/load/iterate/run session and every fresh resume from every checkpoint must start each iteration from a generator state never used before for a different history, and must not store the same batch twice; the seed lattice includes 0, 2^31 and 2^32-1. A seeded run that completes under numpy error state raise / warnings as errors / changed print options, or into an output directory pre-populated with stale temporary files and old checkpoints, must be the same run; so must the same seeded run in fresh interpreter processes started with another PYTHONHASHSEED or with python -O / -OO; large rows put bootstrap samples of more than 2^15 points through the mode fits.",
            "Trusted: numpy's legacy global generator semantics. Seeding from the user's own Sampler random_state is treated as legitimate.", "DESIGN.md §4 C09"),
    "C10": ("model_checking",
            "paired exploration: every run of a tape-deviation tree is executed twice (log-likelihood f and f+c) under the same owned tape and the two executions are compared at every step boundary (commuting-diagram oracle)",
            "For every configuration of a covering array, every shift c in {-1e3,-37.25,0.5,64,1e3} (3 of them in quick) and every tape with <=1 per-iteration deviation, the real sampler is run with f and f+c; after each of the five pipeline steps of "
            "each iteration beta, labels, counters, particle coordinates, normalised weights and ESS must agree (to rounding) and every recorded log-evidence must differ by beta*c; the final evidence by c. A transition-level commuting diagram (one real reweighting step from a state and from its shifted image) covers beta_prev values inside the last tolerance cell; weak and tight-volume-variation targets and likelihoods returning int64 / float32 scalar blobs are in the lattice; an exact-ties phase runs constant / flat-topped / top-hat likelihoods with 8 and 16 particles (ESS exactly at its target).",
            "Trusted: tolerances stated in evidence (weights/ESS/logZ: 1e-8 + 20 x the largest logL drift observed between the two runs). A discrete mismatch is only reported if it reproduces on an independent tape (a floating tie does not).", "DESIGN.md §4 C10"),
    "C11": ("model_checking",
            "exhaustive enumeration of -inf mask sequences over the warm-up iterations (scripted prior draws and replacement answers) on the real Sampler.sample(), with a step-boundary monitor",
            "All sequences of zero-likelihood masks (m_1..m_W) in ({0,1}^n)^W for n in {2,3,4} and W in {1..4} warm-up iterations (W forced through ess_ratio), plus all replacement-index answers for small n, are executed through the real "
            "iteration loop: no -inf log-likelihood may be stored at any step boundary, each beta=0 batch's recorded logZ must lie within [min,max] of the per-batch log supported fractions seen so far (counted once), and for a constant-on-support "
            "likelihood the first annealing iteration must jump to beta=1 with its evidence inside the same interval. Includes float32 likelihood / prior-transform variants, redrawn all -inf batches, and annealing iterations with Metropolis uniforms scripted to 0. Failure injection: the user's likelihood raises once at its j-th call of iteration t, for every (t<=W+1, j<=2n) x every mask sequence, and the iteration is retried on the same sampler (an Exception and a KeyboardInterrupt); constant-on-support likelihoods with a non-zero constant; large scopes (512 particles x 66 warm-up iterations) with the supported fractions observed at the likelihood.",
            "Trusted: the interval oracle accepts per-batch, pooled and harmonic-pooled estimators. The statistical half of the property (convergence of the final evidence) is outside this family (see C02).", "DESIGN.md §4 C11"),
    "C12": ("model_checking",
            "terminal-state exploration of deviation-bounded runs over a covering array; exhaustive product of posterior() options x trimming parameters x scripted resampling offsets on every terminal state, against the reference MIS model",
            "Every terminal state reached by the real run() with <=1 tape deviation per configuration (pairwise/3-wise covering array of kernel, resampler, clustering, metric, evaluation, boundary, n_total, ess_ratio, target) "
            "is checked for |1-beta|<1e-4, reference ESS>=n_total and evidence()==reference logZ(1); then all 16 flag combinations of posterior() x 4 trimming settings x scripted offsets are executed and checked for arity, "
            "equal lengths, normalised/uniform weights and row-by-row alignment of x, logL, blob and log-weight with the stored particles. Plus a termination-threshold phase (n_total just above every posterior ESS the run passes through), resume with a larger n_total, a session phase for posterior()/evidence() after save/load/iterate sequences, duo sessions (two samplers interleaved) and cross-configuration resumes with a larger n_total; termination thresholds taken at the end of long runs (table of 3e5 entries quick, 2.3e6 thorough).",
            "Trusted: float reference MIS model, pure fixtures. The per-configuration run cap is reported in evidence when hit.", "DESIGN.md §4 C12"),
    "C13": ("model_checking",
            "schedule enumeration: every permutation of the evaluation/completion order of a likelihood batch at every pool.map call of a run (bounded number of deviating calls), differential comparison of step-boundary state digests across evaluation modes under one tape",
            "For one owned random tape the real sampler is run scalar, vectorised, through ordered / lazy / out-of-order pool objects (all 3! / 4! batch permutations at each map call, <=1 deviating call quick, <=2 thorough) "
            "and through real worker pools of size 1-3; after every pipeline step the complete state digest must equal the serial run's, the final evidence must be bit-identical and `calls` must equal the instrumented evaluation counter. The mode lattice includes bound log_likelihood_args/kwargs, a likelihood with a thin support (discarded warm-up batches) and a corner target with 1-3 walkers; several samplers sharing one plain likelihood function (different bound arguments) are run serially and with real pools inside one process; a concurrent.futures-style executor pool (submit -> Future, in-order map) and one returning numpy arrays are among the pool objects; evaluations are counted across worker processes (batch sizes not multiples of the worker count); a 1500-particle d=12 configuration is compared across modes.",
            "Trusted: purity of the fixture likelihood. Real pool internals are observed, not scheduled.", "DESIGN.md §4 C13"),
    "C14": ("model_checking",
            "environment-answer enumeration with a scripted clusterer (all predicted-label vectors incl. missing labels) through the real Trainer/Resampler/kernel; real-clusterer pool lattice x systematic offsets; cadence x warm-up x cap x resume-from-every-checkpoint exploration with a kernel-entry monitor",
            "All label vectors {0..K-1}^m a K-cluster model can answer for the training pool (m in 4..6, K in 2..3) x all label vectors for 3 resampled particles are pushed through the real Trainer.run / Resampler.run / kernel entry: every label must index an existing valid mode "
            "and that mode must equal the single-cluster fit of exactly the training points with that label; the real clusterer is run on a lattice of weighted blob pools (trimming removes whole blobs) over the systematic-offset partition; "
            "real runs over cluster_every in {1,2,3,4,5,7} x warm-up length x kernel x normalize x cap (equal and dying modes) are monitored at every kernel entry and resumed from every checkpoint into a fresh sampler. A session phase drives one clustering sampler through save/load/iterate patterns with the monitor armed; the monitor also demands that every active particle carries the label the training model predicts for it (row-wise), and the cadence lattice includes n_particles in {1,2}. Duo sessions (two clustering samplers with different targets / cadences / caps, every interleaving) and cross-configuration resumes (clustering switched on, other cadence, other particle count) run under the same monitor; dynamic (volume-variation) schedules, one/two-particle runs on several tapes, copies of the live sampler.",
            "Trusted: C19 (a Student-t location lies in the bounding box of its data) for the pipeline-level 'same cluster' oracle. Pools and targets outside the lattice are not explored.", "DESIGN.md §4 C14"),
    "C15": ("exploration",
            "exhaustive enumeration of a deterministic data lattice x weight lattice x model options on the real mixture / hierarchical models under an owned tape, with invariants and a replication-equivalence differential oracle",
            "Every (dimension, size, layout incl. degenerate and duplicated points, separation, affine placement) x weight pattern (uniform, integer, dominant, geometric, zeros on a subset / a whole blob) x covariance type {full,diag} x components {1,2,3} "
            "is fitted by the real GaussianMixture: weights a probability vector, covariances symmetric PSD, non-negligible components inside the data bounding box, labels in range, finite BIC, integer weights equivalent to replicated points; "
            "the hierarchical model (normalize on/off, 3 threshold modifiers, both ways core.py sets the cap) must label every training point once in [0,K), respect the cap and the minimum child size, and predict labels / row-stochastic probabilities for training and arbitrary query points. Integer options are also given as numpy integers; one clusterer object is refitted on every ordered pair (triple) of data sets of different dimension / size and compared with a fresh object; data and sample weights are presented in every legal container / dtype / layout; the object may pass through pickle / deepcopy / copy between fits; every query must get the same label alone, in a pair and inside the batch; 12-30 well separated blobs under every cap; query batches of thousands of rows versus batches of 257.",
            "Trusted: scipy quantiles for the data grids. Known findings (un-normalised data with spread ~1e3) are listed in known_findings.json and printed as KNOWN-FINDING.", "DESIGN.md §4 C15"),
    "C16": ("exploration",
            "exhaustive enumeration of a structured-double lattice x all strict/periodic/reflective coordinate assignments against an exact rational fold",
            "Every value of a ~1.3k-point lattice of doubles (signed zeros, subnormals, every binade edge 2^-60..2^70 and up to 2^1023 with ulp neighbours, integers/halves/quarters with ulp neighbours, 2^53 and 2^63 edges, 1e300) "
            "is placed in every coordinate of 1-D (d<=3) and 2-D arrays under every one of the 3^d role assignments; results are compared with the exact rational mod-1 / triangle fold, idempotence, untouched strict coordinates, "
            "unmodified input and the exact truth table of check_bounds. A kernel-usage phase runs the real kernels over every ordered pair of boundary configurations in one process (3 walkers, expected positions from first principles). The index collections are given in every legal spelling (tuple, set, frozenset, dict keys, numpy-integer lists, int32/uint8 arrays, reversed / repeated lists) and the point arrays in every dtype / layout that carries a dyadic sub-lattice exactly; a d=8 phase runs pairs of index-array configurations under abbreviating numpy print options; ensembles of 7e4-2e5 points must be handled row by row like batches of 509.",
            "Trusted: Python Fraction arithmetic. Doubles outside the lattice are represented by their binade/neighbourhood class only. The 'symmetric proposal o fold is symmetric' consequence is decided under C03.", "DESIGN.md §4 C16"),
    "C17": ("model_checking",
            "explicit-state exploration of all public-operation sequences up to a depth on the real StateManager next to a deep-copy reference model, with np.shares_memory and caller-side overwrites after every accessor; twin-run differential oracle at sampler level",
            "All sequences over 22 public operations (setters, commit, every getter, results, weights, export, import, save/load) up to depth 4 (quick) / 5 (thorough) are replayed on a fresh real object; after every accessor the returned arrays must not share memory "
            "with any internal array and are overwritten by the caller, after every operation internal state and cache must equal the deep-copy model; commits must grow each recorded history by exactly one batch. Sampler layer: all accessor sequences (depth 2/3) between real iterations, "
            "with overwrites, must leave later iterations bit-identical to an untouched twin run. 'Internal arrays' are all ndarrays reachable from the objects' attributes (any cache); the alphabets include every posterior() option combination save_state(exclude=...), setters fed read-only views of caller-owned buffers, complete iteration records (commit-commit of identical batches), pickle / deepcopy of the live sampler, and histories of 31-257 (thorough 1024) committed batches around every power of two.",
            "Trusted: the reference model (dict/list deep copies). copy=False setters are outside the property.", "DESIGN.md §4 C17"),
    "C18": ("model_checking",
            "exhaustive one-factor-at-a-time enumeration of invalid values over 4 base configurations; covering-array exploration (pairwise / 3-wise) of the constructor option product with complete real runs and delta-minimisation of failures",
            "All listed constraint violations x 4 valid bases must be rejected by the constructor with zero likelihood/prior calls; every row of a strength-2 (quick) / strength-3 (thorough) covering array over 14 constructor options "
            "(incl. pool in {None,1,2,object}, save_every on an in-memory file system, cluster cadence and caps) must construct, run to completion and satisfy the run post-conditions. Valid rows that write checkpoints are also resumed by a fresh sampler; the valid lattice includes three targets, three particle counts and two tapes; boundary index sequences are given as lists, tuples and empty sequences; every valid row is used again after run() (one more sample(), a further run() with a larger target). Option spellings: each numeric / boolean option of three valid bases given as another scalar type with the same value (numpy ints/floats/bools, 0-d arrays, int for float and float for int) must either be rejected by the constructor before any likelihood call or give the same run as the plain spelling. Valid rows include duplicate boundary indices and likelihood / prior transform given as bound methods of an unreferenced object or functools.partial; every stored particle of a completed run lies in the unit cube; legal values far from the small ones (ess_ratio=120, 600 particles).",
            "Trusted: covering-array generator (its tuple coverage is measured and reported). Higher-order interactions than the stated strength are not covered.", "DESIGN.md §4 C18"),
    "C19": ("exploration",
            "exhaustive enumeration of a deterministic data lattice x transformation-group lattice (scalings, translations, all coordinate permutations) with the untransformed fit as reference",
            "Every data set of a deterministic lattice (d in 1..8, n in 4d..2000, Gaussian / t_1,2,5,30 / skewed / contaminated quantile grids, three correlations) is fitted by the real fit_mvstud and checked for a finite "
            "in-box location, symmetric positive-definite scale and nu in (0,inf]; each is refitted under every transformation of the group lattice and compared with the transformed reference fit; large t-grids must recover "
            "(location, scale, nu); non-finite nu must be replaced by the fallback in ModeStatistics and never reach the kernel. Call histories: every sequence (length 2-3) of three data sets in disjoint boxes through fit_mvstud / from_global / from_particles (with empty clusters), via one refilled buffer or fresh arrays; data arrays in every dtype / layout that carries them exactly; data laws with exact ties in one coordinate; pipeline sessions with copies of the live sampler; data sets of 6.6e4-8e4 rows; nearly collinear clouds in the recovery phase.",
            "Trusted: scipy quantile functions used to build the grids. Tolerance 1e-4 relative for equivariance; recovery of nu accepted in either nu or 1/nu metric (nearly Gaussian tails are weakly identified).", "DESIGN.md §4 C19"),
    "C20": ("exploration",
            "exhaustive enumeration of all weight vectors over a dynamic-range alphabet (length<=5) and structured long vectors against rational references; affine-map lattice for the volume metric",
            "All 37k weight vectors over {0,1e-300,1e-12,1e-3,1,3,1e8,1e300} of length 1-5 (plus long uniform/geometric/dominant/tempering/tied vectors up to 1e4) are checked for ESS in [1,N], exact value, scale and permutation invariance; "
            "the trimming contract (upper set, order, alignment via identity samples, ESS fraction, normalisation) is checked for 4 ESS fractions x 3 bin counts; the volume metric is checked for non-negativity, weight-scale and affine invariance on a lattice of maps with condition number up to 1e6. Every trim_weights call made by real runs is checked against the contract (call-site phase); a session phase checks posterior(trim) against the current weights after save/load/iterate sequences. Weights / samples are also presented in every legal dtype / layout, every call is repeated after a call with other arguments, and arrays returned earlier are held and must not change; the affine maps include uniform rescalings to extreme units (1e-150..1e60); values may not depend on the caller's numpy error state.; 10000 x 16 arrays; overlapping calls from two threads with one preemption",
            "Trusted: Fraction reference for ESS. Inputs where the metric's own regularisation/clip branches are active are outside the invariance premise and are counted in evidence.", "DESIGN.md §4 C20"),
}

NOT_APPLICABLE = {
    "C01": "statement about the sampling distribution of a Monte-Carlo estimator over all seeds; no finite enumeration of the randomness yields a sound oracle (DESIGN.md §4 C01); its deterministic mechanisms are decided under C03-C07, C09, C11",
    "C02": "mean error over seeds, N->4N and 1/sqrt(R) are ensemble statements (DESIGN.md §4 C02); the deterministic mechanism named in its anchors (global reseed) is decided under C09",
}

PENDING = "check not built yet in this session (planned, see DESIGN.md §4)"


def main():
    props = [json.loads(l)["id"] for l in open(os.path.join(V, "properties.jsonl"))]
    checks = []
    for pid in props:
        if pid not in CHECKS:
            continue
        level, tech, text, note, ref = CHECKS[pid]
        checks.append({
            "property_id": pid,
            "quick_cmd": f"./check {pid} --tier quick",
            "thorough_cmd": f"./check {pid} --tier thorough",
            "evidence_file": f"/verif/evidence/{pid}.json",
            "replay_cmd_template": f"./check {pid} --replay {{path}}",
            "engine": "mc",
            "level_claimed": {"category": level, "text": text, "design_ref": ref},
            "level_note": note,
            "technique": tech,
        })
    na = []
    for pid in props:
        if pid in CHECKS:
            continue
        na.append({"property_id": pid, "reason": NOT_APPLICABLE.get(pid, PENDING)})
    man = {
        "version": 1,
        "setup_cmd": "/venv/bin/python tools/selftest.py",
        "hooks": {
            "guard": "TEMPEST_VERIF",
            "enable": "no source hooks are needed: checks import /repo's working tree directly and own nondeterminism by replacing numpy.random.* / module-level open/os at run time (./check exports TEMPEST_VERIF=1 for uniformity)",
            "baseline_off_cmd": "cd /repo && /venv/bin/python -m pytest -ra -q -p no:cacheprovider --timeout=900 --continue-on-collection-errors",
            "source_commits": [],
            "add_only": True,
        },
        "engines": [{
            "name": "mc",
            "path": "/verif/mc",
            "serves_properties": sorted(CHECKS),
            "kind_free_text": "hand-written bounded-exhaustive explorer for Python: scripted environment (random tape, file system, clusterer, pool), "
                              "explicit-state BFS over operation sequences, choice-point DFS, lattice enumeration against exact reference models",
        }],
        "checks": checks,
        "not_applicable": na,
        "notes": "Known findings: /verif/known_findings.json. Seeded property-breaking changes: /verif/seeded/. All checks run against /repo's working tree.",
    }
    with open(os.path.join(V, "MANIFEST.json"), "w") as f:
        json.dump(man, f, indent=1)
        f.write("\n")
    print(f"MANIFEST.json: {len(checks)} checks, {len(na)} not_applicable")


if __name__ == "__main__":
    main()
