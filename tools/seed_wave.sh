#!/bin/bash
# tools/seed_wave.sh <prefix> <ids...> : verify + evaluate every m1/m2 of worktrees <prefix>_<id>
pre=$1; shift
for id in "$@"; do for m in m1 m2; do
  wt=${pre}_$id
  [ -f $wt/$m.patch ] || { echo "=== $id $m : no patch"; continue; }
  v=$(/verif/tools/seed_verify.sh $wt $m | head -1)
  out=$(SEED_TREE=${SEED_TREE:-/repo} /verif/tools/seed_eval.sh $wt/$m.patch $id 2>&1 | grep -v KNOWN)
  if echo "$out" | grep -q "^VIOLATION"; then r=CAUGHT; else r=MISSED; fi
  echo "=== $id $m : $r :: $v"
  echo "$out" | grep "key=" | head -2 | cut -c1-200
done; done
