#!/venv/bin/python
"""tools/seed_import.py <worktree> <prop> <m1|m2> <caught_by csv> <initially_missed 0|1> <what was strengthened> [suffix]"""
import sys, os, json, shutil, subprocess
wt, prop, m, caught, missed, strengthened = sys.argv[1:7]
suffix = sys.argv[7] if len(sys.argv) > 7 else ""
d = f"/verif/seeded/{prop}-{suffix}{m}"
os.makedirs(d, exist_ok=True)
shutil.copy(f"{wt}/{m}.patch", f"{d}/patch.diff")
shutil.copy(f"{wt}/demo_{m}.py", f"{d}/demo.py")
notes = open(f"{wt}/notes.md").read()
meta = {
    "property": prop,
    "source": "independent sub-agent given only the property text and a scratch worktree" + ({"r3": "; round 3 brief: two cooperating sites (m1) / multi-step history or rare regime (m2)", "r4": "; round 4 brief: INPUT-REGIME change (m1) / LIFECYCLE change (m2)", "r7": "; round 7 (6 properties): two free-choice changes of different kinds, the author being told everything the harness already covers; launched with the scratch worktree as working directory", "r6": "; round 6 brief: SCALE change (m1: wrong only beyond a size small-scope exploration does not reach) / free choice (m2: whatever the author expects a bounded-exhaustive harness to be structurally unable to see); launched with the scratch worktree as working directory", "r5": "; round 5 brief: EXACTNESS / TIE / BOUNDARY-VALUE change (m1) / ENVIRONMENT-INTERACTION change (m2: pickling, deep copies, numpy error state and print options, stale files, executor pools, interrupts, bound methods); launched with the scratch worktree as working directory (no view of /verif)"}.get(suffix, "")),
    "applies_to_repo_commit": subprocess.check_output(["git", "-C", wt, "log", "--format=%h", "-1"], text=True).strip(),
    "what_it_needs_to_manifest": "see notes.md (sub-agent's own description)",
    "verified_by_me": {
        "existing_tests_with_change": "233 passed (tools/seed_verify.sh)",
        "demo_with_change_exit": 1, "demo_without_change_exit": 0,
        "commands": [f"tools/seed_verify.sh {wt} {m}", f"tools/seed_eval.sh {wt}/{m}.patch {caught.split(',')[0]}"],
    },
    "caught_by": caught.split(","),
    "initially_missed": bool(int(missed)),
    "strengthening": strengthened,
}
json.dump(meta, open(f"{d}/meta.json", "w"), indent=1)
open(f"{d}/notes.md", "w").write(notes)
print("imported", d)
