#!/venv/bin/python
"""Run the repository's pinned baseline (guard OFF) in a given tree and compare with BASELINE.json.
usage: tools/baseline.py [repo_dir]   -> exit 0 iff every stable_pass test passed."""
import json, os, subprocess, sys, tempfile, xml.etree.ElementTree as ET
repo = sys.argv[1] if len(sys.argv) > 1 else "/repo"
b = json.load(open("/root/.vp/BASELINE.json"))
with tempfile.TemporaryDirectory() as td:
    jx = os.path.join(td, "j.xml")
    env = dict(os.environ); env.pop("TEMPEST_VERIF", None); env["PYTHONPATH"] = repo
    p = subprocess.run(["/venv/bin/python", "-m", "pytest", "-q", "-p", "no:cacheprovider", "--timeout=900",
                        "--continue-on-collection-errors", f"--junitxml={jx}"], cwd=repo, env=env, capture_output=True, text=True)
    root = ET.parse(jx).getroot()
    ok = set()
    bad = set()
    for tc in root.iter("testcase"):
        name = f"{tc.get('classname')}::{tc.get('name')}"
        if any(c.tag in ("failure", "error") for c in tc):
            bad.add(name)
        elif not any(c.tag == "skipped" for c in tc):
            ok.add(name)
missing = [t for t in b["stable_pass"] if t not in ok]
print(f"stable_pass passing: {len(b['stable_pass']) - len(missing)}/{len(b['stable_pass'])}; other passing: {len(ok - set(b['stable_pass']))}; failing: {sorted(bad)}")
for m in missing:
    print("MISSING", m)
sys.exit(1 if missing else 0)
